import PanderaModel.Lemmas.Transform
import PanderaModel.TransformVocab
/-!
# C15 — schema transformations keep every untouched attribute, obey the inverse laws, reject
invalid requests, and mirror the corresponding dataframe transformations

The theorems are generic in the attribute vocabulary `V`; the per-run obligations
`pandas_vocab_update` / `polars_vocab_update` / `pandas_vocab_index` instantiate them with the
tables regenerated from the working tree (`Generated/ColumnProps.lean`): if a constructor
parameter is missing from `Column.properties`, or `set_index` / `reset_index` stop copying an
attribute, those `decide` obligations fail.
-/
namespace Pandera.Transform

/-! ## per-run obligations over the regenerated tables -/

/-- pandas: every `Column.__init__` parameter is a `Column.properties` key read from the attribute
of the same name -/
theorem pandas_vocab_update : pandasVocab.wfUpdate = true := by decide

/-- polars: the same -/
theorem polars_vocab_update : polarsVocab.wfUpdate = true := by decide

/-- pandas: `set_index` and `reset_index` copy every `Index.__init__` parameter, and those
parameters are `Column.__init__` parameters with equal defaults -/
theorem pandas_vocab_index : pandasVocab.wfIndex = true := by decide

/-- `Index` has no constructor of its own: its signature is `ComponentSchema.__init__` -/
theorem index_uses_component_ctor : Pandera.Generated.ColumnProps.indexOwnInit = false := by decide

/-! ## unpacking the vocabulary conditions -/

theorem covers_mem {ctor table : List (String × String)} {k d : String}
    (h : covers ctor table = true) (hm : (k, d) ∈ ctor) : (k, k) ∈ table := by
  unfold covers at h
  have := List.all_eq_true.mp h (k, d) hm
  simpa using this

/-! ## update_column / update_columns: every attribute not named is kept -/

/-- `Column(**{**column.properties, **kwargs})` keeps every attribute that `kwargs` does not name -/
theorem rebuild_keeps {V : Vocab} (hV : V.wfUpdate = true) {c kw c' : Attrs} {k d v : String}
    (hr : rebuild V c kw = .ok c') (hm : (k, d) ∈ V.colCtor) (hk : k ∉ keys kw)
    (hv : c.lookup k = some v) : c'.lookup k = some v := by
  simp only [Vocab.wfUpdate, Bool.and_eq_true, decide_eq_true_eq] at hV
  obtain ⟨⟨hn, hpn⟩, hc⟩ := hV
  unfold rebuild at hr
  rw [construct_lookup hr hn hm, lookup_append_of_not_mem hk,
      readAttrs_lookup hpn (covers_mem hc hm) hv]
  rfl

/-- … and sets every attribute that `kwargs` names -/
theorem rebuild_sets {V : Vocab} (hV : V.wfUpdate = true) {c kw c' : Attrs} {k d v : String}
    (hr : rebuild V c kw = .ok c') (hm : (k, d) ∈ V.colCtor) (hv : kw.lookup k = some v) :
    c'.lookup k = some v := by
  simp only [Vocab.wfUpdate, Bool.and_eq_true, decide_eq_true_eq] at hV
  unfold rebuild at hr
  rw [construct_lookup hr hV.1.1 hm, lookup_append_of_lookup hv]
  rfl

/-- the rebuilt column has exactly the constructor's attributes -/
theorem rebuild_keys {V : Vocab} {c kw c' : Attrs} (hr : rebuild V c kw = .ok c') :
    keys c' = keys V.colCtor := keys_construct hr

/-- **update_column**: the index, the dataframe-level attributes, the set and order of columns and
every other column are untouched; in the updated column every attribute not named by the call
keeps its value and every named attribute takes the given value -/
theorem updateColumn_frame {V : Vocab} (hV : V.wfUpdate = true) {S S' : TSchema} {n : String} {kw : Attrs}
    (hu : updateColumn V S n kw = .ok S') :
    S'.index = S.index ∧ S'.miOpts = S.miOpts ∧ S'.top = S.top
    ∧ keys S'.columns = keys S.columns
    ∧ (∀ m, m ≠ n → S'.columns.lookup m = S.columns.lookup m)
    ∧ ∃ c c', S.columns.lookup n = some c ∧ S'.columns.lookup n = some c'
        ∧ (∀ k d v, (k, d) ∈ V.colCtor → k ≠ "name" → k ∉ keys kw → c.lookup k = some v → c'.lookup k = some v)
        ∧ (∀ k d v, (k, d) ∈ V.colCtor → kw.lookup k = some v → c'.lookup k = some v) := by
  unfold updateColumn at hu
  split at hu
  · cases hu
  · cases hc : S.columns.lookup n with
    | none => simp [hc] at hu
    | some c =>
      simp only [hc] at hu
      cases hr : rebuild V (setName c n) kw with
      | error e => simp [hr, bind, Except.bind] at hu
      | ok c' =>
        simp only [hr, bind, Except.bind, pure, Except.pure, Except.ok.injEq] at hu
        subst hu
        have hmem : n ∈ keys S.columns := mem_keys.mpr ⟨c, mem_of_lookup hc⟩
        refine ⟨rfl, rfl, rfl, keys_dictSet_of_mem hmem, fun m hm => lookup_dictSet_ne hm, c, c', rfl,
          lookup_dictSet_self, ?_, ?_⟩
        · intro k d v hm hname hk hv
          exact rebuild_keeps hV hr hm hk (by rw [setName_lookup_ne hname]; exact hv)
        · intro k d v hm hv
          exact rebuild_sets hV hr hm hv

/-! ## set_index / reset_index: every shared attribute is carried over -/

/-- the Index built by `set_index` has every `Index.__init__` attribute of the column -/
theorem levelOf_attrs {V : Vocab} (hV : V.wfIndex = true) {c ix : Attrs} {k d v : String}
    (hl : levelOf V c = .ok ix) (hm : (k, d) ∈ V.idxCtor) (hv : c.lookup k = some v) :
    ix.lookup k = some v := by
  simp only [Vocab.wfIndex, Bool.and_eq_true, decide_eq_true_eq] at hV
  obtain ⟨⟨⟨⟨⟨⟨⟨⟨_, hin⟩, hsn⟩, _⟩, hsc⟩, _⟩, _⟩, _⟩, _⟩ := hV
  unfold levelOf at hl
  rw [construct_lookup hl hin hm, readAttrs_lookup hsn (covers_mem hsc hm) hv]
  rfl

/-- the Column built by `reset_index` has every `Index.__init__` attribute of the level … -/
theorem columnOf_attrs {V : Vocab} (hV : V.wfIndex = true) {ix c : Attrs} {k d v : String}
    (hc : columnOf V ix = .ok c) (hm : (k, d) ∈ V.idxCtor) (hv : ix.lookup k = some v) :
    c.lookup k = some v := by
  simp only [Vocab.wfIndex, Bool.and_eq_true, decide_eq_true_eq] at hV
  obtain ⟨⟨⟨⟨⟨⟨⟨⟨hcn, _⟩, _⟩, hrn⟩, _⟩, hrc⟩, hsh⟩, _⟩, _⟩ := hV
  have hmc : (k, d) ∈ V.colCtor := by
    have := List.all_eq_true.mp hsh (k, d) hm
    simpa using this
  unfold columnOf at hc
  rw [construct_lookup hc hcn hmc, readAttrs_lookup hrn (covers_mem hrc hm) hv]
  rfl

/-- … and the constructor default for every Column-only parameter (`required`, `regex`) -/
theorem columnOf_defaults {V : Vocab} (hV : V.wfIndex = true) {ix c : Attrs} {k d : String}
    (hc : columnOf V ix = .ok c) (hm : (k, d) ∈ V.colCtor) (hk : k ∉ keys V.idxCtor) :
    c.lookup k = some d := by
  simp only [Vocab.wfIndex, Bool.and_eq_true, decide_eq_true_eq] at hV
  obtain ⟨⟨⟨⟨⟨⟨⟨⟨hcn, _⟩, _⟩, _⟩, _⟩, _⟩, _⟩, hrk⟩, _⟩ := hV
  unfold columnOf at hc
  rw [construct_lookup hc hcn hm]
  have : (readAttrs V.resetIdxKw ix).lookup k = none := by
    apply lookup_eq_none_iff.mpr
    intro hin
    rcases mem_keys.mp hin with ⟨v, hv⟩
    unfold readAttrs at hv
    rcases List.mem_filterMap.mp hv with ⟨p, hp, he⟩
    have hp' := List.all_eq_true.mp hrk p hp
    cases hl : ix.lookup p.2 with
    | none => simp [hl] at he
    | some w =>
      simp only [hl, Option.map, Option.some.injEq, Prod.mk.injEq] at he
      have : (keys V.idxCtor).contains p.1 = true := by
        have := hp'; simp only [Bool.and_eq_true] at this; exact this.1
      rw [he.1] at this
      exact hk (by simpa using this)
  rw [this]; rfl

/-- moving a column into the index and back gives a column with the same attributes: every
shared attribute survives both rebuilds (the inverse law `reset after set`, attribute-wise) -/
theorem reset_set_attrs {V : Vocab} (hV : V.wfIndex = true) {c ix c' : Attrs} {k d v : String}
    (hl : levelOf V c = .ok ix) (hc : columnOf V ix = .ok c') (hm : (k, d) ∈ V.idxCtor)
    (hv : c.lookup k = some v) : c'.lookup k = some v :=
  columnOf_attrs hV hc hm (levelOf_attrs hV hl hm hv)

/-! ## invalid requests: an error, and therefore no schema -/

theorem removeColumns_error_iff (S : TSchema) (ns : List String) (h : ns.Nodup) :
    (∃ e, removeColumns S ns = .error e) ↔ ∃ n ∈ ns, n ∉ keys S.columns := by
  unfold removeColumns
  by_cases hc : ns.any (fun n => !(keys S.columns).contains n) = true
  · simp only [hc, if_true]
    constructor
    · intro _
      rcases List.any_eq_true.mp hc with ⟨n, hn, hb⟩
      exact ⟨n, hn, by simpa using hb⟩
    · intro _; exact ⟨_, rfl⟩
  · simp only [hc]
    constructor
    · rintro ⟨e, he⟩; simp [h] at he
    · rintro ⟨n, hn, hnot⟩
      exact absurd (List.any_eq_true.mpr ⟨n, hn, by simpa using hnot⟩) hc

theorem selectColumns_error_iff (S : TSchema) (ns : List String) :
    (∃ e, selectColumns S ns = .error e) ↔ ∃ n ∈ ns, n ∉ keys S.columns := by
  unfold selectColumns
  by_cases hc : ns.any (fun n => !(keys S.columns).contains n) = true
  · simp only [hc, if_true]
    constructor
    · intro _
      rcases List.any_eq_true.mp hc with ⟨n, hn, hb⟩
      exact ⟨n, hn, by simpa using hb⟩
    · intro _; exact ⟨_, rfl⟩
  · simp only [hc]
    constructor
    · rintro ⟨e, he⟩; simp at he
    · rintro ⟨n, hn, hnot⟩
      exact absurd (List.any_eq_true.mpr ⟨n, hn, by simpa using hnot⟩) hc

theorem updateColumn_name_rejected (V : Vocab) (S : TSchema) (n : String) (kw : Attrs)
    (h : "name" ∈ keys kw) : updateColumn V S n kw = .error .value := by
  unfold updateColumn
  have : kw.any (fun p => p.1 == "name") = true := any_key_iff.mpr h
  simp [this]

theorem updateColumn_missing_rejected (V : Vocab) (S : TSchema) (n : String) (kw : Attrs)
    (h : n ∉ keys S.columns) : ∃ e, updateColumn V S n kw = .error e := by
  unfold updateColumn
  split
  · exact ⟨_, rfl⟩
  · rw [lookup_eq_none_iff.mpr h]; exact ⟨_, rfl⟩

theorem setIndex_missing_rejected (V : Vocab) (S : TSchema) (ks : List String) (d a : Bool)
    (h : ∃ k ∈ ks, k ∉ keys S.columns) : setIndex V S ks d a = .error .schemaInit := by
  unfold setIndex
  rcases h with ⟨k, hk, hn⟩
  have : ks.any (fun n => !(keys S.columns).contains n) = true :=
    List.any_eq_true.mpr ⟨k, hk, by simpa using hn⟩
  rw [if_pos this]

theorem resetIndex_no_index_rejected (V : Vocab) (S : TSchema) (l : Option (List String)) (d : Bool)
    (hl : l ≠ some []) (h : S.index = []) : resetIndex V S l d = .error .schemaInit := by
  unfold resetIndex
  have : (l == some []) = false := by
    cases l with
    | none => rfl
    | some x => cases x with
      | nil => exact absurd rfl hl
      | cons a b => rfl
  simp [this, h]

/-! ## inverse laws -/

theorem dictMerge_fresh {α : Type} (d e : List (String × α)) (hn : (keys (d ++ e)).Nodup) :
    dictMerge d e = d ++ e := by
  unfold dictMerge
  induction e generalizing d with
  | nil => simp
  | cons p e ih =>
    have hp : p.1 ∉ keys d := by
      intro hin
      have : (keys d ++ p.1 :: keys e).Nodup := by simpa [keys] using hn
      exact (List.nodup_append.mp this).2.2 p.1 hin p.1 List.mem_cons_self rfl
    rw [List.foldl_cons, dictSet_of_not_mem hp, ih (d ++ [p]) (by simpa using hn)]
    simp

theorem dictOf_nodup {α : Type} (l : List (String × α)) (h : (keys l).Nodup) : dictOf l = l := by
  unfold dictOf
  rw [dictMerge_fresh [] l (by simpa using h)]
  rfl

/-- **select all**: selecting every column (in schema order) is the identity -/
theorem select_all (S : TSchema) (h : (keys S.columns).Nodup) :
    selectColumns S (keys S.columns) = .ok S := by
  unfold selectColumns
  have h1 : (keys S.columns).any (fun n => !(keys S.columns).contains n) = false := by
    apply Bool.eq_false_iff.mpr
    intro hc
    rcases List.any_eq_true.mp hc with ⟨n, hn, hb⟩
    simp [hn] at hb
  rw [h1]
  simp only [Bool.false_eq_true, if_false]
  have h2 : ∀ (l : List (String × Attrs)), (∀ p ∈ l, S.columns.lookup p.1 = some p.2) →
      (keys l).filterMap (fun n => (S.columns.lookup n).map fun c => (n, c)) = l := by
    intro l
    induction l with
    | nil => intro _; rfl
    | cons p l ih =>
      intro hl
      have hp := hl p List.mem_cons_self
      simp only [keys, List.map_cons, List.filterMap_cons, hp, Option.map]
      congr 1
      exact ih (fun q hq => hl q (List.mem_cons_of_mem _ hq))
  rw [h2 S.columns (fun p hp => lookup_of_mem_nodup h hp), dictOf_nodup _ h]

/-- **remove after add**: adding columns under fresh names and removing them again gives the
original schema -/
theorem remove_add (S : TSchema) (extra : List (String × Attrs))
    (hfresh : (keys (S.columns ++ extra)).Nodup) :
    removeColumns (addColumns S extra) (keys extra) = .ok S := by
  have hk : keys (extra.map fun p => (p.1, setName p.2 p.1)) = keys extra := keys_map_snd _ _
  have hn' : (keys (S.columns ++ extra.map fun p => (p.1, setName p.2 p.1))).Nodup := by
    have : keys (S.columns ++ extra.map fun p => (p.1, setName p.2 p.1)) = keys (S.columns ++ extra) := by
      simp only [keys, List.map_append] at hk ⊢; rw [hk]
    rw [this]; exact hfresh
  have hsplit : (keys S.columns ++ keys extra).Nodup := by simpa [keys] using hfresh
  obtain ⟨_, hen, hdisj⟩ := List.nodup_append.mp hsplit
  unfold removeColumns addColumns
  simp only
  rw [dictMerge_fresh _ _ hn']
  have h1 : (keys extra).any (fun n => !(keys (S.columns ++ extra.map fun p => (p.1, setName p.2 p.1))).contains n) = false := by
    apply Bool.eq_false_iff.mpr
    intro hc
    rcases List.any_eq_true.mp hc with ⟨n, hn, hb⟩
    have : n ∈ keys (S.columns ++ extra.map fun p => (p.1, setName p.2 p.1)) := by
      simp only [keys, List.map_append, List.mem_append]
      right
      simp only [keys] at hk hn; rw [hk]; exact hn
    simp [this] at hb
  rw [h1]
  simp only [Bool.false_eq_true, if_false, hen, not_true_eq_false]
  congr 1
  cases S with
  | mk cols ix mi top =>
    simp only [TSchema.mk.injEq, and_true]
    rw [List.filter_append]
    have f1 : cols.filter (fun p => !(keys extra).contains p.1) = cols := by
      apply List.filter_eq_self.mpr
      intro p hp
      have hpk : p.1 ∈ keys cols := mem_keys.mpr ⟨p.2, hp⟩
      have : p.1 ∉ keys extra := fun hin => hdisj p.1 hpk p.1 hin rfl
      simpa using this
    have f2 : (extra.map fun p => (p.1, setName p.2 p.1)).filter (fun p => !(keys extra).contains p.1) = [] := by
      apply List.filter_eq_nil_iff.mpr
      intro p hp
      rcases List.mem_map.mp hp with ⟨q, hq, rfl⟩
      have : q.1 ∈ keys extra := mem_keys.mpr ⟨q.2, hq⟩
      simpa using this
    rw [f1, f2]; simp


/-! ## mirroring: the transformed schema accepts the transformed frame

`ok` — the verdict of one component on one column / index level — is an **arbitrary** function
of the component's validation attributes (`comp`), so the theorems hold for every check set, dtype,
nullable/unique flag … a component can carry. -/

theorem lookup_filter_not_contains {α : Type} {d : List (String × α)} {ns : List String} {k : String}
    (hk : k ∉ ns) : (d.filter fun p => !ns.contains p.1).lookup k = d.lookup k := by
  induction d with
  | nil => rfl
  | cons p d ih =>
    obtain ⟨a, b⟩ := p
    by_cases ha : a ∈ ns
    · have : (!ns.contains a) = false := by simpa using ha
      rw [List.filter_cons]; simp only [this, Bool.false_eq_true, if_false]
      have hne : (k == a) = false := by
        have : k ≠ a := fun e => hk (e ▸ ha)
        simpa using this
      rw [List.lookup_cons, hne]; exact ih
    · have : (!ns.contains a) = true := by simpa using ha
      rw [List.filter_cons]; simp only [this, if_true, List.lookup_cons]
      cases k == a
      · exact ih
      · rfl

theorem keys_filter {α : Type} (d : List (String × α)) (f : String → Bool) :
    keys (d.filter fun p => f p.1) = (keys d).filter f := by
  induction d with
  | nil => rfl
  | cons p d ih =>
    simp only [keys] at ih ⊢
    rw [List.filter_cons, List.map_cons, List.filter_cons]
    cases f p.1 <;> simp [ih]

/-- **remove_columns mirrors `df.drop(columns=…)`** -/
theorem remove_mirror {δ : Type} (V : Vocab) (ok : Attrs → δ → Bool) {S S' : TSchema} {D : TFrame δ}
    {ns : List String} (hacc : accept V ok S D) (hr : removeColumns S ns = .ok S') :
    accept V ok S' (D.drop ns) := by
  unfold removeColumns at hr
  split at hr
  · cases hr
  · split at hr
    · cases hr
    · cases hr
      obtain ⟨hcols, hstrict, hord, hidx⟩ := hacc
      have kS : keys (S.columns.filter fun p => !ns.contains p.1) = (keys S.columns).filter (fun n => !ns.contains n) :=
        keys_filter S.columns (fun n => !ns.contains n)
      have kD : keys (D.cols.filter fun p => !ns.contains p.1) = (keys D.cols).filter (fun n => !ns.contains n) :=
        keys_filter D.cols (fun n => !ns.contains n)
      refine ⟨?_, ?_, ?_, hidx⟩
      · intro p hp
        have hp' := List.mem_filter.mp hp
        have hpn : p.1 ∉ ns := by simpa using hp'.2
        obtain ⟨h1, h2⟩ := hcols p hp'.1
        refine ⟨fun hreq => ?_, fun d hd => ?_⟩
        · have := h1 hreq
          show (keys (D.cols.filter fun p => !ns.contains p.1)).contains p.1 = true
          rw [kD]
          simp only [List.contains_iff_mem, List.mem_filter] at this ⊢
          exact ⟨this, by simpa using hpn⟩
        · apply h2 d
          have : (D.cols.filter fun p => !ns.contains p.1).lookup p.1 = some d := hd
          rwa [lookup_filter_not_contains hpn] at this
      · intro hs q hq
        have hq' := List.mem_filter.mp hq
        have := hstrict hs q hq'.1
        show (keys (S.columns.filter fun p => !ns.contains p.1)).contains q.1 = true
        rw [kS]
        simp only [List.contains_iff_mem, List.mem_filter] at this ⊢
        exact ⟨this, hq'.2⟩
      · intro ho
        have e := hord ho
        show (keys (D.cols.filter fun p => !ns.contains p.1)).filter
              (fun n => (keys (S.columns.filter fun p => !ns.contains p.1)).contains n)
            = (keys (S.columns.filter fun p => !ns.contains p.1)).filter
              (fun n => (keys (D.cols.filter fun p => !ns.contains p.1)).contains n)
        rw [kS, kD, List.filter_filter, List.filter_filter]
        have e' := congrArg (List.filter (fun n => !ns.contains n)) e
        rw [List.filter_filter, List.filter_filter] at e'
        have l1 : (keys D.cols).filter (fun n => ((keys S.columns).filter (fun n => !ns.contains n)).contains n && !ns.contains n)
            = (keys D.cols).filter (fun n => !ns.contains n && (keys S.columns).contains n) := by
          apply List.filter_congr
          intro n _
          by_cases hn : n ∈ ns <;> by_cases hs : n ∈ keys S.columns <;> simp [hn, hs]
        have l2 : (keys S.columns).filter (fun n => ((keys D.cols).filter (fun n => !ns.contains n)).contains n && !ns.contains n)
            = (keys S.columns).filter (fun n => !ns.contains n && (keys D.cols).contains n) := by
          apply List.filter_congr
          intro n _
          by_cases hn : n ∈ ns <;> by_cases hs : n ∈ keys D.cols <;> simp [hn, hs]
        rw [l1, l2]; exact e'

/-- **reset_index mirrors `df.reset_index()`** for a single-level index under a fresh name, when the
schema is not `ordered` (the recorded region `K_C15_resetIndexOrder` is exactly the excluded case) -/
theorem reset_index_mirror_partial {δ : Type} {V : Vocab} (hV : V.wfIndex = true) (ok : Attrs → δ → Bool)
    {S S' : TSchema} {D : TFrame δ} {ix : Attrs} {n : String} {d : δ}
    (hacc : accept V ok S D) (hix : S.index = [ix]) (hD : D.index = [(n, d)])
    (hSn : (keys S.columns).Nodup) (hfreshS : n ∉ keys S.columns) (hfreshD : n ∉ keys D.cols)
    (hnotOrdered : isTrue S.top "ordered" = false)
    (hr : resetIndex V S none false = .ok S') :
    accept V ok S' D.resetIndex := by
  obtain ⟨hcols, hstrict, _, hidx⟩ := hacc
  have hlv := hidx (by rw [hix]; simp)
  rw [hix, hD] at hlv
  simp only [levelsOk] at hlv
  obtain ⟨⟨hname, hok⟩, _⟩ := hlv
  unfold resetIndex at hr
  have e1 : ((none : Option (List String)) == some []) = false := rfl
  simp only [hix, e1, List.isEmpty_cons, Bool.false_eq_true, if_false, List.map_cons, List.map_nil] at hr
  unfold resetWith at hr
  simp only [hix, List.length_cons, List.length_nil, List.map_cons, List.map_nil] at hr
  have e2 : ¬ (0 + 1 ≥ 2) := by omega
  simp only [e2, if_false, decide_false, Bool.false_eq_true] at hr
  have e3 : ([nameOf ix] == [nameOf ix]) = true := by simp
  simp only [e3, if_true, List.isEmpty_nil, Bool.not_true, Bool.false_eq_true, if_false] at hr
  unfold finishReset at hr
  unfold restoreColumns at hr
  simp only [Bool.false_eq_true, if_false, List.mapM_cons, List.mapM_nil, bind, Except.bind, pure, Except.pure] at hr
  unfold columnEntry at hr
  cases hc : columnOf V ix with
  | error e => simp [hc] at hr
  | ok c =>
    simp only [hc, Except.ok.injEq] at hr
    subst hr
    have hdict : dictOf [(nameOf ix, c)] = [(nameOf ix, c)] := by
      apply dictOf_nodup; simp [keys]
    have hname' : nameOf ix = n := hname
    have hcolsS' : (addColumns S (dictOf [(nameOf ix, c)])).columns = S.columns ++ [(n, setName c n)] := by
      rw [hname'] at hdict
      unfold addColumns
      simp only [hname', hdict, List.map_cons, List.map_nil]
      apply dictMerge_fresh
      simp only [keys, List.map_append, List.map_cons, List.map_nil]
      refine List.nodup_append.mpr ⟨hSn, by simp, ?_⟩
      intro a ha b hb
      have : b = n := by simpa using hb
      subst this
      intro e; subst e; exact hfreshS ha
    -- the restored column validates like the level it came from
    have hcomp : comp V (setName c n) = comp V ix := by
      have hV' := hV
      simp only [Vocab.wfIndex, Bool.and_eq_true, decide_eq_true_eq] at hV'
      obtain ⟨⟨⟨⟨⟨⟨⟨⟨hcn, _⟩, _⟩, hrn⟩, _⟩, hrc⟩, hsh⟩, _⟩, _⟩ := hV'
      apply comp_congr
      intro k dflt hm hk
      have hmc : (k, dflt) ∈ V.colCtor := by
        have := List.all_eq_true.mp hsh (k, dflt) hm
        simpa using this
      rw [setName_lookup_ne hk]
      have hcl := hc
      unfold columnOf at hcl
      rw [construct_lookup hcl hcn hmc, readAttrs_lookup_self hrn (covers_mem hrc hm)]
      cases ix.lookup k <;> rfl
    refine ⟨?_, ?_, ?_, fun h => absurd rfl h⟩
    · intro p hp
      have hp' : p ∈ S.columns ++ [(n, setName c n)] := by rw [← hcolsS']; exact hp
      rcases List.mem_append.mp hp' with h | h
      · obtain ⟨h1, h2⟩ := hcols p h
        have hpn : p.1 ≠ n := fun e => hfreshS (e ▸ mem_keys.mpr ⟨p.2, h⟩)
        refine ⟨fun hreq => ?_, fun d' hd' => ?_⟩
        · have := h1 hreq
          show (keys (D.index ++ D.cols)).contains p.1 = true
          simp only [keys, List.map_append, List.contains_iff_mem, List.mem_append] at this ⊢
          exact Or.inr this
        · apply h2 d'
          have hl : (D.index ++ D.cols).lookup p.1 = some d' := hd'
          rw [hD] at hl
          have : (p.1 == n) = false := by simpa using hpn
          simpa [List.lookup_cons, this] using hl
      · have : p = (n, setName c n) := by simpa using h
        subst this
        refine ⟨fun _ => ?_, fun d' hd' => ?_⟩
        · show (keys (D.index ++ D.cols)).contains n = true
          rw [hD]; simp [keys]
        · have hl : (D.index ++ D.cols).lookup n = some d' := hd'
          rw [hD] at hl
          have : d' = d := by simpa [List.lookup_cons] using hl.symm
          subst this
          rw [hcomp]; exact hok
    · intro hs q hq
      have hq' : q ∈ D.index ++ D.cols := hq
      show (keys (addColumns S (dictOf [(nameOf ix, c)])).columns).contains q.1 = true
      rw [hcolsS']
      rw [hD] at hq'
      rcases List.mem_append.mp hq' with h | h
      · have : q = (n, d) := by simpa using h
        subst this
        simp [keys]
      · have := hstrict hs q h
        simp only [keys, List.map_append, List.contains_iff_mem, List.mem_append] at this ⊢
        exact Or.inl this
    · intro ho
      have : isTrue S.top "ordered" = true := ho
      rw [hnotOrdered] at this; cases this

/-- the excluded case is real: with `ordered=True` the schema obtained by `reset_index` puts the
restored column last, the frame obtained by `DataFrame.reset_index` puts it first -/
theorem reset_index_ordered_witness :
    ∃ (S S' : TSchema) (D : TFrame Unit),
      accept pandasVocab (fun _ _ => true) S D
      ∧ resetIndex pandasVocab S none false = .ok S'
      ∧ ¬ accept pandasVocab (fun _ _ => true) S' D.resetIndex := by
  refine ⟨{ columns := [("a", [("name", "a")])], index := [[("name", "i")]], top := [("ordered", "True")] },
          { columns := [("a", [("name", "a")]), ("i", (pandasVocab.colCtor.map fun q => (q.1, if q.1 == "name" then "i" else q.2)))],
            index := [], top := [("ordered", "True")] },
          { cols := [("a", ())], index := [("i", ())] }, ?_, ?_, ?_⟩
  · refine ⟨?_, ?_, ?_, ?_⟩
    · intro p hp
      have : p = ("a", [("name", "a")]) := by simpa using hp
      subst this
      exact ⟨fun _ => by decide, fun _ _ => rfl⟩
    · intro h; exact absurd h (by decide)
    · intro _; decide
    · intro _; exact ⟨⟨by decide, rfl⟩, trivial⟩
  · rfl
  · rintro ⟨_, _, hord, _⟩
    exact absurd (hord (by decide)) (by decide)

/-! ## whole operation sequences: dataframe-level attributes are never touched -/

theorem removeColumns_top {S S' : TSchema} {ns : List String} (h : removeColumns S ns = .ok S') :
    S'.top = S.top := by
  unfold removeColumns at h
  split at h
  · cases h
  · split at h
    · cases h
    · cases h; rfl

theorem finishReset_top {V : Vocab} {S S' : TSchema} {moved kept : List Attrs} {d : Bool}
    (h : finishReset V S moved kept d = .ok S') : S'.top = S.top := by
  unfold finishReset at h
  split at h
  · cases h
  · rename_i S1 hS1
    cases h
    show S1.top = S.top
    unfold restoreColumns at hS1
    split at hS1
    · cases hS1; rfl
    · split at hS1
      · cases hS1
      · cases hS1; rfl

theorem resetWith_top {V : Vocab} {S S' : TSchema} {lv : List String} {d : Bool}
    (h : resetWith V S lv d = .ok S') : S'.top = S.top := by
  unfold resetWith at h
  by_cases hm : S.index.length ≥ 2
  · simp only [hm, if_true] at h
    split at h
    · cases h
    · exact finishReset_top h
  · simp only [hm, if_false] at h
    split at h
    · split at h
      · cases h
      · exact finishReset_top h
    · split at h
      · cases h
      · exact finishReset_top h

theorem setIndex_top {V : Vocab} {S S' : TSchema} {ks : List String} {d a : Bool}
    (h : setIndex V S ks d a = .ok S') : S'.top = S.top := by
  unfold setIndex at h
  split at h
  · cases h
  · split at h
    · cases h
    · simp only at h
      split at h
      · have h2 := removeColumns_top h
        exact h2
      · cases h; rfl

theorem apply_top {V : Vocab} {S S' : TSchema} {op : Op} (h : apply V S op = .ok S') : S'.top = S.top := by
  cases op with
  | add e => cases h; rfl
  | remove ns => exact removeColumns_top h
  | update n kw =>
    simp only [apply] at h
    unfold updateColumn at h
    split at h
    · cases h
    · split at h
      · cases h
      · cases hr : rebuild V (setName ‹Attrs› n) kw with
        | error e => simp [hr, bind, Except.bind] at h
        | ok c' =>
          simp only [hr, bind, Except.bind, pure, Except.pure, Except.ok.injEq] at h
          subst h; rfl
  | updateMany u =>
    simp only [apply] at h
    unfold updateColumns at h
    split at h
    · cases h
    · split at h
      · cases h
      · split at h
        · cases h
        · cases h; rfl
  | rename m =>
    simp only [apply] at h
    unfold renameColumns at h
    split at h
    · cases h
    · simp only at h
      split at h
      · cases h
      · cases h; rfl
  | select ns =>
    simp only [apply] at h
    unfold selectColumns at h
    split at h
    · cases h
    · cases h; rfl
  | setIndex ks d a => exact setIndex_top h
  | resetIndex l d =>
    simp only [apply] at h
    unfold resetIndex at h
    split at h
    · cases h; rfl
    · split at h
      · cases h
      · exact resetWith_top h

/-- **any** sequence of transformation calls leaves the dataframe-level attributes (strict, ordered,
coerce, unique, name, title, description, metadata, …) as they were -/
theorem applyAll_top {V : Vocab} (ops : List Op) {S S' : TSchema} (h : applyAll V S ops = .ok S') :
    S'.top = S.top := by
  induction ops generalizing S with
  | nil => cases h; rfl
  | cons op ops ih =>
    simp only [applyAll, bind, Except.bind] at h
    cases ha : apply V S op with
    | error e => simp [ha] at h
    | ok S1 =>
      simp only [ha] at h
      rw [ih h, apply_top ha]

/-! ## non-vacuity: concrete instances of the hypotheses -/

example : updateColumn pandasVocab
    { columns := [("a", pandasVocab.colCtor.map fun q => (q.1, if q.1 == "drop_invalid_rows" then "True" else q.2))] }
    "a" [("nullable", "True")]
    = .ok { columns := [("a", pandasVocab.colCtor.map fun q =>
        (q.1, if q.1 == "drop_invalid_rows" then "True" else if q.1 == "nullable" then "True"
              else if q.1 == "name" then "a" else q.2))] } := by rfl

example : (keys ([("a", ([] : Attrs))] ++ [("b", [])])).Nodup := by decide

end Pandera.Transform

import PanderaModel.Registry
import PanderaModel.Generated.DtypeRegistry
/-!
# C09 — data type resolution is coherent in every engine

Every clause is checked exhaustively over the registry tables regenerated from the engines of the
working tree on this run (`decide +kernel`: kernel evaluation, no axiom).
-/
namespace Pandera
namespace C09
open Registry Generated

/-! recorded findings, as narrow row predicates -/

/-- `K_C09_arrowTimestampStr`: `str(ArrowTimestamp())` = "timestamp[ns][pyarrow]" is not resolvable -/
def K_arrowTimestampStr (r : DRow) : Bool := r.cls == "ArrowTimestamp"

/-- `K_C09_dateChecksObjectTyped`: `pandas_engine.Date` (dates stored in object columns) recognises every
object-typed data type when no data is given -/
def K_dateChecksObject (r : DRow) : Bool := r.cls == "Date" && r.kind == .date && r.bits == none

/-- `K_C09_genericNotReflexive`: the python-generic container types (dict, list, TypedDict, NamedTuple) and
the empty polars Enum do not recognise themselves -/
def K_genericNotReflexive (r : DRow) : Bool :=
  r.cls == "PythonDict" || r.cls == "PythonList" || r.cls == "PythonTuple" || r.cls == "PythonTypedDict"
    || r.cls == "PythonNamedTuple" || r.cls == "Enum"

def noExcl (_ : DRow) : Bool := false

/-- **C09 (a)** every accepted spelling resolves, in every engine -/
theorem every_key_resolves :
    keysResolve numpyKeys = true ∧ keysResolve pandasKeys = true
    ∧ keysResolve polarsKeys = true ∧ keysResolve pysparkKeys = true := by decide +kernel

/-- **C09 (b)** resolving a resolved type again returns an equal, equally hashed object -/
theorem resolve_idempotent :
    resolveIdempotent numpyDtypes = true ∧ resolveIdempotent pandasDtypes = true
    ∧ resolveIdempotent polarsDtypes = true ∧ resolveIdempotent pysparkDtypes = true := by decide +kernel

/-- **C09 (c)** spellings registered as equivalent resolve to equal, equally hashed objects -/
theorem equivalent_keys_equal_and_equal_hash :
    groupsCoherent numpyKeys = true ∧ groupsCoherent pandasKeys = true
    ∧ groupsCoherent polarsKeys = true ∧ groupsCoherent pysparkKeys = true := by decide +kernel

/-- **C09 (d)** in the engines that back schema serialisation the printed name of every primitive
type resolves back to an equal type (pandas: outside the recorded `ArrowTimestamp` row) -/
theorem print_resolve_roundtrip_partial :
    printRoundtrip noExcl numpyDtypes = true ∧ printRoundtrip K_arrowTimestampStr pandasDtypes = true
    ∧ printRoundtrip noExcl pysparkDtypes = true := by decide +kernel

/-- **C09 (e)** a resolved type recognises itself (outside the recorded generic-container rows) -/
theorem check_reflexive_partial :
    checkReflexive noExcl numpyDtypes numpyCheck = true
    ∧ checkReflexive K_genericNotReflexive pandasDtypes pandasCheck = true
    ∧ checkReflexive K_genericNotReflexive polarsDtypes polarsCheck = true
    ∧ checkReflexive noExcl pysparkDtypes pysparkCheck = true := by decide +kernel

/-- **C09 (f)** a numeric, boolean or temporal type never recognises a type of another kind,
signedness or bit width — all ordered pairs (pandas: outside the recorded `Date` row) -/
theorem check_implies_same_kind_sign_width_partial :
    checkRespectsKind noExcl numpyDtypes numpyCheck = true
    ∧ checkRespectsKind K_dateChecksObject pandasDtypes pandasCheck = true
    ∧ checkRespectsKind noExcl polarsDtypes polarsCheck = true
    ∧ checkRespectsKind noExcl pysparkDtypes pysparkCheck = true := by decide +kernel

/-- the full-strength clauses fail exactly on the recorded rows (witnesses inside the regions) -/
theorem K_C09_witnesses :
    printRoundtrip noExcl pandasDtypes = false
    ∧ checkReflexive noExcl pandasDtypes pandasCheck = false
    ∧ checkRespectsKind noExcl pandasDtypes pandasCheck = false := by decide +kernel

/-- intensional: in the numeric families a check holds exactly for the same kind, signedness and
width — for every bit width, not only the registered ones -/
theorem numeric_check_iff (a b : NumT) : numCheck a b = true ↔ a = b := numCheck_iff a b

/-- the tables are not empty (the clauses are not vacuous) -/
example : numpyDtypes.length ≥ 15 ∧ pandasDtypes.length ≥ 50 ∧ polarsDtypes.length ≥ 15 ∧ pysparkDtypes.length ≥ 10
    ∧ pandasKeys.length ≥ 150 := by decide +kernel

end C09
end Pandera

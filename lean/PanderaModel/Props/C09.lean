import PanderaModel.Registry
import PanderaModel.Generated.DtypeRegistry
/-!
# C09 — data type resolution is coherent in every engine

Every clause is checked exhaustively over the registry tables regenerated from the engines of the
working tree on this run (`decide +kernel`: kernel evaluation, no axiom).
-/
namespace Pandera
namespace C09
open Registry Generated

/-! recorded findings, as narrow row predicates -/

/-- `K_C09_arrowTimestampStr`: `str(ArrowTimestamp())` = "timestamp[ns][pyarrow]" is not resolvable -/
def K_arrowTimestampStr (r : DRow) : Bool := r.cls == "ArrowTimestamp"

/-- `K_C09_dateChecksObjectTyped`: `pandas_engine.Date` (dates stored in object columns) recognises every
object-typed data type when no data is given -/
def K_dateChecksObject (r : DRow) : Bool := r.cls == "Date" && r.kind == .date && r.bits == none

/-- `K_C09_genericNotReflexive`: the python-generic container types (dict, list, TypedDict, NamedTuple) and
the empty polars Enum do not recognise themselves -/
def K_genericNotReflexive (r : DRow) : Bool :=
  r.cls == "PythonDict" || r.cls == "PythonList" || r.cls == "PythonTuple" || r.cls == "PythonTypedDict"
    || r.cls == "PythonNamedTuple" || r.cls == "Enum"

def noExcl (_ : DRow) : Bool := false

/-- **C09 (a)** every accepted spelling resolves, in every engine -/
theorem every_key_resolves :
    keysResolve numpyKeys = true ∧ keysResolve pandasKeys = true
    ∧ keysResolve polarsKeys = true ∧ keysResolve pysparkKeys = true := by decide +kernel

/-- **C09 (b)** resolving a resolved type again returns an equal, equally hashed object -/
theorem resolve_idempotent :
    resolveIdempotent numpyDtypes = true ∧ resolveIdempotent pandasDtypes = true
    ∧ resolveIdempotent polarsDtypes = true ∧ resolveIdempotent pysparkDtypes = true := by decide +kernel

/-- **C09 (c)** spellings registered as equivalent resolve to equal, equally hashed objects -/
theorem equivalent_keys_equal_and_equal_hash :
    groupsCoherent numpyKeys = true ∧ groupsCoherent pandasKeys = true
    ∧ groupsCoherent polarsKeys = true ∧ groupsCoherent pysparkKeys = true := by decide +kernel

/-- **C09 (d)** in the engines that back schema serialisation the printed name of every primitive
type resolves back to an equal type (pandas: outside the recorded `ArrowTimestamp` row) -/
theorem print_resolve_roundtrip_partial :
    printRoundtrip noExcl numpyDtypes = true ∧ printRoundtrip K_arrowTimestampStr pandasDtypes = true
    ∧ printRoundtrip noExcl pysparkDtypes = true := by decide +kernel

/-- **C09 (e)** a resolved type recognises itself (outside the recorded generic-container rows) -/
theorem check_reflexive_partial :
    checkReflexive noExcl numpyDtypes numpyCheck = true
    ∧ checkReflexive K_genericNotReflexive pandasDtypes pandasCheck = true
    ∧ checkReflexive K_genericNotReflexive polarsDtypes polarsCheck = true
    ∧ checkReflexive noExcl pysparkDtypes pysparkCheck = true := by decide +kernel

/-- **C09 (f)** a numeric, boolean or temporal type never recognises a type of another kind,
signedness or bit width — all ordered pairs (pandas: outside the recorded `Date` row) -/
theorem check_implies_same_kind_sign_width_partial :
    checkRespectsKind noExcl numpyDtypes numpyCheck = true
    ∧ checkRespectsKind K_dateChecksObject pandasDtypes pandasCheck = true
    ∧ checkRespectsKind noExcl polarsDtypes polarsCheck = true
    ∧ checkRespectsKind noExcl pysparkDtypes pysparkCheck = true := by decide +kernel

/-- the full-strength clauses fail exactly on the recorded rows (witnesses inside the regions) -/
theorem K_C09_witnesses :
    printRoundtrip noExcl pandasDtypes = false
    ∧ checkReflexive noExcl pandasDtypes pandasCheck = false
    ∧ checkRespectsKind noExcl pandasDtypes pandasCheck = false := by decide +kernel

/-- intensional: in the numeric families a check holds exactly for the same kind, signedness and
width — for every bit width, not only the registered ones -/
theorem numeric_check_iff (a b : NumT) : numCheck a b = true ↔ a = b := numCheck_iff a b

/-! ### the clauses in the quantified form of the property (the table checks lifted by the lemmas of
`Registry`): statements about *every key* and *every ordered pair* of the regenerated tables -/

/-- every key's resolved type is a row of its engine's table (needed to compose (a) with (b)) -/
theorem keys_closed :
    keysClosed numpyKeys numpyDtypes = true ∧ keysClosed pandasKeys pandasDtypes = true
    ∧ keysClosed polarsKeys polarsDtypes = true ∧ keysClosed pysparkKeys pysparkDtypes = true := by decide +kernel

/-- **C09 (a)+(b)** `E.dtype(E.dtype(k)) == E.dtype(k)` with equal hashes, for every engine `E` and every key
`k` of its registry -/
theorem every_key_resolves_to_a_fixed_point :
    ∀ p ∈ [(numpyKeys, numpyDtypes), (pandasKeys, pandasDtypes), (polarsKeys, polarsDtypes),
           (pysparkKeys, pysparkDtypes)],
      ∀ k ∈ p.1, ∃ r ∈ p.2, k.resolved = some r.id ∧ r.re = some r.id ∧ r.hashStable = true := by
  intro p hp
  simp only [List.mem_cons, List.mem_nil_iff, or_false] at hp
  rcases hp with rfl | rfl | rfl | rfl
  · exact resolve_fixed_forall _ _ keys_closed.1 resolve_idempotent.1
  · exact resolve_fixed_forall _ _ keys_closed.2.1 resolve_idempotent.2.1
  · exact resolve_fixed_forall _ _ keys_closed.2.2.1 resolve_idempotent.2.2.1
  · exact resolve_fixed_forall _ _ keys_closed.2.2.2 resolve_idempotent.2.2.2

/-- **C09 (c)** `k1 ~ k2 ⇒ E.dtype(k1) == E.dtype(k2)` and equal hashes, for every engine and every pair of keys -/
theorem equivalent_keys_forall :
    ∀ ks ∈ [numpyKeys, pandasKeys, polarsKeys, pysparkKeys],
      ∀ a ∈ ks, ∀ b ∈ ks, a.group = b.group → a.resolved = b.resolved ∧ a.hash = b.hash := by
  intro ks hks
  simp only [List.mem_cons, List.mem_nil_iff, or_false] at hks
  rcases hks with rfl | rfl | rfl | rfl
  · exact groups_forall _ equivalent_keys_equal_and_equal_hash.1
  · exact groups_forall _ equivalent_keys_equal_and_equal_hash.2.1
  · exact groups_forall _ equivalent_keys_equal_and_equal_hash.2.2.1
  · exact groups_forall _ equivalent_keys_equal_and_equal_hash.2.2.2

/-- **C09 (f)** for every ordered pair of resolved types of the pandas engine (outside the recorded `Date` row):
a physical type that recognises another has its kind, signedness and width -/
theorem pandas_check_pairs_forall_partial :
    ∀ a ∈ pandasDtypes, physical a = true → K_dateChecksObject a = false →
      ∀ b ∈ pandasDtypes, cell pandasCheck a.id b.id = true →
        a.kind = b.kind ∧ a.signed = b.signed ∧ a.bits = b.bits :=
  respectsKind_forall _ _ _ check_implies_same_kind_sign_width_partial.2.1

/-- **C09 (f)** the same for numpy, polars and pyspark, with no exclusion -/
theorem check_pairs_forall :
    ∀ p ∈ [(numpyDtypes, numpyCheck), (polarsDtypes, polarsCheck), (pysparkDtypes, pysparkCheck)],
      ∀ a ∈ p.1, physical a = true → ∀ b ∈ p.1, cell p.2 a.id b.id = true →
        a.kind = b.kind ∧ a.signed = b.signed ∧ a.bits = b.bits := by
  intro p hp a ha hph b hb hc
  simp only [List.mem_cons, List.mem_nil_iff, or_false] at hp
  rcases hp with rfl | rfl | rfl
  · exact respectsKind_forall _ _ _ check_implies_same_kind_sign_width_partial.1 a ha hph rfl b hb hc
  · exact respectsKind_forall _ _ _ check_implies_same_kind_sign_width_partial.2.2.1 a ha hph rfl b hb hc
  · exact respectsKind_forall _ _ _ check_implies_same_kind_sign_width_partial.2.2.2 a ha hph rfl b hb hc

/-- **C09 (d)+(e)** numpy and pyspark, full strength: every primitive type's printed name resolves back to it
and every type recognises itself -/
theorem print_and_reflexive_forall :
    ∀ p ∈ [(numpyDtypes, numpyCheck), (pysparkDtypes, pysparkCheck)],
      ∀ r ∈ p.1, (r.primitive = true → r.restr = some r.id) ∧ cell p.2 r.id r.id = true := by
  intro p hp r hr
  simp only [List.mem_cons, List.mem_nil_iff, or_false] at hp
  rcases hp with rfl | rfl
  · exact ⟨fun h => printRoundtrip_forall _ _ print_resolve_roundtrip_partial.1 r hr h rfl,
      reflexive_forall _ _ _ check_reflexive_partial.1 r hr rfl⟩
  · exact ⟨fun h => printRoundtrip_forall _ _ print_resolve_roundtrip_partial.2.2 r hr h rfl,
      reflexive_forall _ _ _ check_reflexive_partial.2.2.2 r hr rfl⟩

/-- the physical premises are met by many rows, and recognised pairs exist (non-vacuity of (f)) -/
example : (pandasDtypes.filter physical).length ≥ 20
    ∧ (pandasDtypes.filter (fun a => physical a && !K_dateChecksObject a
        && pandasDtypes.any (fun b => a.id != b.id && cell pandasCheck a.id b.id))).length ≥ 1 := by decide +kernel

/-- the tables are not empty (the clauses are not vacuous) -/
example : numpyDtypes.length ≥ 15 ∧ pandasDtypes.length ≥ 50 ∧ polarsDtypes.length ≥ 15 ∧ pysparkDtypes.length ≥ 10
    ∧ pandasKeys.length ≥ 150 := by decide +kernel

end C09
end Pandera

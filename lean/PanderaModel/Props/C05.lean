import PanderaModel.Effects
import PanderaModel.Generated.Skeletons
import PanderaModel.Alias
import PanderaModel.Generated.SchemaMutation
/-!
# C05 — schemas are observationally immutable: no operation leaves hidden state
-/
namespace Pandera
namespace C05
open Eff Generated

/-- run a history of operations one after the other -/
def seqList : List Stmt → Stmt
  | [] => .skip
  | s :: ss => .seq s (seqList ss)

/-- **C05 (histories).** If every operation of a history restores the tracked schema/config
locations, then after the whole history — whatever callbacks raise, wherever the history is cut
short by an exception — every tracked location holds the value it had before the history started.
(Induction over the history, with `restores_sound` for each operation.) -/
theorem history_preserves (ss : List Stmt) (h : ∀ s ∈ ss, restores s = true) :
    ∀ {c c' : Cfg} {r : Res}, Exec (seqList ss) c r c' → ∀ l, c'.1 l = c.1 l := by
  induction ss with
  | nil =>
    intro c c' r hex l
    cases hex; rfl
  | cons s ss ih =>
    intro c c' r hex l
    have hs := h s (by simp)
    have hrest : ∀ {c c' : Cfg} {r : Res}, Exec (seqList ss) c r c' → ∀ l, c'.1 l = c.1 l :=
      ih (fun x hx => h x (by simp [hx]))
    cases hex with
    | seqN h1 h2 =>
      rw [hrest h2 l, restores_sound hs h1 l]
    | seqE h1 => exact restores_sound hs h1 l

/-- per-run obligations: the mutate-then-revert functions, as translated from the source now,
are accepted by the (verified) analyser -/
theorem run_schema_component_checks_restores : restores skel_runSchemaComponentChecks = true := by decide
theorem validate_column_restores : restores skel_validateColumn = true := by decide
theorem config_context_restores : resetConfigContextOk = true ∧ restores skel_configContext = true := by decide
theorem polars_container_validate_restores : restores skel_polarsContainerValidate = true := by decide
theorem polars_column_validate_restores : restores skel_polarsColumnValidate = true := by decide
theorem index_backend_validate_restores : restores skel_indexBackendValidate = true := by decide
theorem array_backend_validate_restores : restores skel_arrayBackendValidate = true := by decide

/-- hence: every execution of component validation inside a DataFrameSchema leaves the components'
`dtype` and `coerce` as they were (normal return or exception at any callback) -/
theorem component_attrs_unchanged {c c' : Cfg} {r : Res} (hex : Exec skel_runSchemaComponentChecks c r c') :
    ∀ l, c'.1 l = c.1 l := restores_sound run_schema_component_checks_restores hex

theorem regex_column_name_unchanged {c c' : Cfg} {r : Res} (hex : Exec skel_validateColumn c r c') :
    ∀ l, c'.1 l = c.1 l := restores_sound validate_column_restores hex

/-- any history made of these operations preserves the tracked locations -/
theorem validation_histories_preserve (ss : List Stmt)
    (h : ∀ s ∈ ss, s = skel_runSchemaComponentChecks ∨ s = skel_validateColumn ∨ s = skel_configContext
      ∨ s = skel_polarsContainerValidate ∨ s = skel_polarsColumnValidate) :
    ∀ {c c' : Cfg} {r : Res}, Exec (seqList ss) c r c' → ∀ l, c'.1 l = c.1 l := by
  apply history_preserves
  intro s hs
  rcases h s hs with rfl | rfl | rfl | rfl | rfl
  · exact run_schema_component_checks_restores
  · exact validate_column_restores
  · exact config_context_restores.2
  · exact polars_container_validate_restores
  · exact polars_column_validate_restores

/-- non-vacuity: the analyser rejects the shape the code had before the repair (revert only on the
success path) -/
example : restores (.tryCatch (.seq (.save 0 0) (.seq (.seq (.setv 0 0) .call) (.restore 0 0))) .skip) = false := by
  decide

/-- and there is a real execution of that shape which leaves the name changed -/
example : ∃ c c' r, Exec (.tryCatch (.seq (.save 0 0) (.seq (.seq (.setv 0 7) .call) (.restore 0 0))) .skip)
    c r c' ∧ c'.1 0 ≠ c.1 0 :=
  ⟨(fun _ => 0, fun _ => 0), (upd (fun _ => 0) 0 7, upd (fun _ => 0) 0 0), .norm,
   .tcE (.seqN (.save 0 0 _) (.seqE (.seqN (.setv 0 7 _) (.callE _)))) (.skip _), by simp [upd]⟩

/-! ## No other function writes to a schema-side object it did not create

`extract/schema_mutation.py` scans **every** function of the pandas and polars backends and every
non-transforming method of the schema classes, and translates each one that contains a write to a
schema-side object (attribute store, `setattr`, item store into an attribute, `set_name`, a
container mutator on an attribute) into an ownership program.  The two functions that write to a
shared component on purpose and undo it are the ones proved restoring above; every other function
must pass the verified ownership analysis: it writes only to objects allocated during that very
call (a deep copy, a shallow copy's own attributes, a new object). -/

/-- the functions whose writes to shared components are covered by `restores` theorems above
(`run_schema_component_checks_restores`, `validate_column_restores`) -/
def restoring : List String :=
  ["pandas/container:DataFrameSchemaBackend.run_schema_component_checks",
   "pandas/components:ColumnBackend.validate.validate_column"]

/-- per-run obligation: every other function with a schema-side write is accepted by the ownership
analysis — as translated from the source now -/
theorem schema_side_writes_are_owned :
    Generated.SchemaMutation.progs.all (fun p => restoring.contains p.1 || Alias.isSafe p.2) = true := by
  decide

/-- the scan saw the code (it is not vacuous because it found nothing to scan) -/
theorem schema_mutation_scan_nonempty :
    (decide (100 ≤ Generated.SchemaMutation.scanned) && restoring.all (fun n => Generated.SchemaMutation.progs.any (·.1 == n))) = true := by
  decide

/-- hence: for every scanned function outside the restoring ones, **no execution changes any object
that existed when the function was entered** — in particular no part of the schema -/
theorem scanned_functions_leave_entry_objects (name : String) (p : Alias.AStmt)
    (hmem : (name, p) ∈ Generated.SchemaMutation.progs) (hnot : restoring.contains name = false)
    {s s' : Alias.St} (hex : Alias.Exec p s s') :
    ∀ r, r < s.next → s'.heap r = s.heap r := by
  have hall := schema_side_writes_are_owned
  rw [List.all_eq_true] at hall
  have := hall (name, p) hmem
  simp only [hnot, Bool.false_or] at this
  exact Alias.isSafe_sound this hex

/-- **every history of scanned functions**: after any sequence of calls — any of the scanned functions
outside the restoring ones, any number, any order, each started from an arbitrary binding of its
parameters to the objects that exist — every object that existed before the first call (the schema, its
components, their checks and dtypes) is exactly as it was -/
theorem scanned_function_histories_leave_entry_objects (calls : List (String × Alias.AStmt))
    (hmem : ∀ c ∈ calls, c ∈ Generated.SchemaMutation.progs ∧ restoring.contains c.1 = false)
    {s s' : Alias.St} (hh : Alias.Hist (calls.map (·.2)) s s') :
    ∀ r, r < s.next → s'.heap r = s.heap r := by
  refine (Alias.hist_untouched hh ?_).2
  intro p hp
  obtain ⟨c, hc, rfl⟩ := List.mem_map.mp hp
  have hall := schema_side_writes_are_owned
  rw [List.all_eq_true] at hall
  have := hall c (hmem c hc).1
  simp only [(hmem c hc).2, Bool.false_or] at this
  exact this

/-- non-vacuity: the shape of a conditional copy followed by an unconditional write (what a
"copy only when needed" refactoring of `collect_schema_components` produces) is rejected, and has an
execution that changes an object of the schema -/
example : Alias.isSafe (.seq (.assign 1 0) (.seq (.choice (.copy 1) .skip) (.mutate 1))) = false := by decide

example : ∃ s s', Alias.Exec (.seq (.assign 1 0) (.seq (.choice (.copy 1) .skip) (.mutate 1))) s s'
    ∧ s.env 0 < s.next ∧ s'.heap (s.env 0) ≠ s.heap (s.env 0) :=
  ⟨⟨fun _ => 0, fun _ => 0, 1⟩, ⟨Alias.updF (fun _ => 0) 1 0, Alias.updF (fun _ => 0) 0 1, 1⟩,
   .seq (.assign 1 0 _) (.seq (.chR (.skip _)) (by
     have := Alias.Exec.mutate 1 ⟨Alias.updF (fun _ => 0) 1 0, fun _ => 0, 1⟩ 1
     simpa [Alias.updF] using this)),
   by decide, by simp [Alias.updF]⟩

end C05
end Pandera

import PanderaModel.Conc
import PanderaModel.Generated.Skeletons
/-!
# C07 — validation outcomes do not depend on thread interleaving
-/
namespace Pandera
namespace C07
open Conc

/-- agreement of two shared stores on a set of locations -/
def AgreeOn (F : List Nat) (a b : Shared) : Prop := ∀ l ∈ F, a l = b l

/-- a step of a thread only writes locations in its write set -/
theorem stepT_writes (sh : Shared) (t : TState) (l : Nat) (h : l ∉ writeSet t.code) :
    (stepT sh t).1 l = sh l := by
  unfold stepT
  cases hc : t.code with
  | nil => rfl
  | cons i rest =>
    rw [hc] at h
    cases i with
    | load s loc => rfl
    | obs loc => rfl
    | store loc s =>
      have : l ≠ loc := by intro e; apply h; simp [writeSet, Instr.writes, e]
      simp [upd, this]
    | setc loc v =>
      have : l ≠ loc := by intro e; apply h; simp [writeSet, Instr.writes, e]
      simp [upd, this]

theorem writeSet_step_subset (sh : Shared) (t : TState) : ∀ l ∈ writeSet (stepT sh t).2.code, l ∈ writeSet t.code := by
  intro l hl
  unfold stepT at hl
  cases hc : t.code with
  | nil => simp [hc] at hl; simp [writeSet] at hl
  | cons i rest =>
    rw [hc] at hl
    have : l ∈ writeSet rest := by cases i <;> simpa using hl
    simp only [writeSet, List.map_cons, List.flatten_cons, List.mem_append]
    exact Or.inr this

theorem footprint_step_subset (sh : Shared) (t : TState) :
    ∀ l ∈ footprint (stepT sh t).2.code, l ∈ footprint t.code := by
  intro l hl
  unfold stepT at hl
  cases hc : t.code with
  | nil => simp [hc] at hl; simp [footprint] at hl
  | cons i rest =>
    rw [hc] at hl
    have : l ∈ footprint rest := by cases i <;> simpa using hl
    simp only [footprint, List.map_cons, List.flatten_cons, List.mem_append]
    exact Or.inr this

/-- a step of a thread depends only on the shared locations in its footprint, and its effect on
those locations is the same -/
theorem stepT_agree (F : List Nat) (a b : Shared) (t : TState) (hF : ∀ l ∈ footprint t.code, l ∈ F)
    (hab : AgreeOn F a b) :
    (stepT a t).2 = (stepT b t).2 ∧ AgreeOn F (stepT a t).1 (stepT b t).1 := by
  unfold stepT
  cases hc : t.code with
  | nil => exact ⟨rfl, hab⟩
  | cons i rest =>
    rw [hc] at hF
    cases i with
    | load s loc =>
      have hl : loc ∈ F := hF loc (by simp [footprint, Instr.reads])
      simp only [hab loc hl]; exact ⟨trivial, hab⟩
    | obs loc =>
      have hl : loc ∈ F := hF loc (by simp [footprint, Instr.reads])
      simp only [hab loc hl]; exact ⟨trivial, hab⟩
    | store loc s =>
      refine ⟨rfl, fun l hl => ?_⟩
      by_cases e : l = loc
      · simp [upd, e]
      · simp [upd, e, hab l hl]
    | setc loc v =>
      refine ⟨rfl, fun l hl => ?_⟩
      by_cases e : l = loc
      · simp [upd, e]
      · simp [upd, e, hab l hl]

/-- number of turns thread `i` gets in a schedule -/
def turns (i : Nat) (sched : List Nat) : Nat := (sched.filter (· == i)).length

/-- **C07 (non-interference).** If no other thread ever writes a location in thread `i`'s
footprint, then under *every* schedule thread `i` is, after its `k` turns, exactly where it would
be after `k` steps alone (same remaining code, same private state, same observations), and the
shared store agrees with the solo store on `i`'s footprint — any number of threads, any schedule -/
theorem noninterference (i : Nat) (F : List Nat) (sched : List Nat) :
    ∀ (w : World) (sh0 : Shared),
      (∀ l ∈ footprint (w.threads i).code, l ∈ F) →
      (∀ j, j ≠ i → ∀ l ∈ writeSet (w.threads j).code, l ∉ F) →
      AgreeOn F w.shared sh0 →
      (run w sched).threads i = (solo sh0 (w.threads i) (turns i sched)).2
        ∧ AgreeOn F (run w sched).shared (solo sh0 (w.threads i) (turns i sched)).1 := by
  induction sched with
  | nil => intro w sh0 _ _ hag; exact ⟨rfl, hag⟩
  | cons j rest ih =>
    intro w sh0 hF hW hag
    by_cases hji : j = i
    · subst hji
      have hturn : turns j (j :: rest) = turns j rest + 1 := by simp [turns]
      rw [hturn]
      simp only [run, solo]
      have hst := stepT_agree F w.shared sh0 (w.threads j) hF hag
      have hthr : (stepW w j).threads j = (stepT sh0 (w.threads j)).2 := by
        simp [stepW, updT, hst.1]
      have := ih (stepW w j) (stepT sh0 (w.threads j)).1
        (by rw [hthr]; intro l hl; exact hF l (footprint_step_subset sh0 _ l hl))
        (by intro k hk l hl
            have : (stepW w j).threads k = w.threads k := by simp [stepW, updT, hk]
            rw [this] at hl; exact hW k hk l hl)
        (by simpa [stepW] using hst.2)
      rw [hthr] at this
      exact this
    · have hturn : turns i (j :: rest) = turns i rest := by
        simp [turns, hji]
      rw [hturn]
      simp only [run]
      have hthr : (stepW w j).threads i = w.threads i := by
        simp [stepW, updT, Ne.symm hji]
      have hsh : AgreeOn F (stepW w j).shared sh0 := by
        intro l hl
        have hnw : l ∉ writeSet (w.threads j).code := fun hm => hW j hji l hm hl
        simp only [stepW]
        rw [stepT_writes w.shared (w.threads j) l hnw]
        exact hag l hl
      have := ih (stepW w j) sh0 (by rw [hthr]; exact hF)
        (by intro k hk l hl
            by_cases hkj : k = j
            · subst hkj
              have hc : (stepW w k).threads k = (stepT w.shared (w.threads k)).2 := by simp [stepW, updT]
              rw [hc] at hl
              exact hW k hk l (writeSet_step_subset w.shared _ l hl)
            · have : (stepW w j).threads k = w.threads k := by simp [stepW, updT, hkj]
              rw [this] at hl; exact hW k hk l hl)
        hsh
      rw [hthr] at this
      exact this

/-! ### the shared-component pattern of the pandas backend is a race (recorded finding) -/

/-- `run_schema_component_checks` for one component whose `coerce` lives at shared location 0:
save, override with `False`, validate (observe), restore -/
def componentThread : TState :=
  ⟨[.load 0 0, .setc 0 0, .obs 0, .store 0 0], fun _ => 0, []⟩

def twoThreadsOneSchema : World := ⟨fun l => if l = 0 then 1 else 0, fun _ => componentThread⟩

/-- solo: `coerce` is restored to its original value `1` -/
example : (run twoThreadsOneSchema [0, 0, 0, 0]).shared 0 = 1 := by decide

/-- `K_C07_sharedSchemaComponents` witness: two threads validating with the *same* schema object —
B saves A's override, A restores, B restores the override: `coerce` stays `0` for good -/
theorem shared_schema_attr_race_witness :
    (run twoThreadsOneSchema [0, 0, 1, 1, 0, 0, 1, 1]).shared 0 ≠ twoThreadsOneSchema.shared 0 := by decide

/-- the same two threads with *different* schema objects (disjoint locations) are covered by the
theorem: each ends as if alone -/
def threadOn (loc : Nat) : TState := ⟨[.load 0 loc, .setc loc 0, .obs loc, .store loc 0], fun _ => 0, []⟩

theorem distinct_schemas_safe (sched : List Nat) (sh : Shared) :
    let w : World := ⟨sh, fun j => threadOn j⟩
    (run w sched).threads 0 = (solo sh (threadOn 0) (turns 0 sched)).2 := by
  intro w
  have := noninterference 0 [0] sched w sh
    (by intro l hl; simp [w, threadOn, footprint, Instr.reads, Instr.writes] at hl; simp [hl])
    (by intro j hj l hl
        simp [w, threadOn, writeSet, Instr.writes] at hl
        simp; omega)
    (fun _ _ => rfl)
  exact this.1

/-- per-run obligation: the context configuration is kept in a `ContextVar` (thread-local), so the
`config_context` blocks of different threads have disjoint footprints -/
theorem context_config_is_thread_local : Generated.contextConfigIsContextVar = true := by decide

end C07
end Pandera

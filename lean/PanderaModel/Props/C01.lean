import PanderaModel.Lemmas.Frame
import PanderaModel.Generated.BuiltinChecks
import PanderaModel.Aggregate
/-!
# C01 — validation verdict equals the declared schema semantics (pandas)

Property theorems only; helper lemmas live in `Lemmas/`.
-/
namespace Pandera
namespace C01

theorem wf_names {D : Frame} (h : D.WF = true) : D.names.Nodup := by
  unfold Frame.WF at h; simp only [Bool.and_eq_true, decide_eq_true_eq] at h; exact h.1.1.1

theorem wf_cols {D : Frame} (h : D.WF = true) : ∀ c ∈ D.cols, ∀ v ∈ c.vals, valFits c.dtype v = true := by
  unfold Frame.WF at h; simp only [Bool.and_eq_true, List.all_eq_true] at h
  intro c hc v hv; exact (h.1.1.2 c hc).2 v hv

theorem wf_index {D : Frame} (h : D.WF = true) : ∀ l ∈ D.index, ∀ v ∈ l.vals, valFits l.dtype v = true := by
  unfold Frame.WF at h; simp only [Bool.and_eq_true, List.all_eq_true] at h
  intro c hc v hv; exact (h.1.2 c hc).2 v hv

/-- **C01 (DataFrameSchema).** At full depth, for every scope table, every schema of the
declarative vocabulary and every well-formed frame outside the recorded `str`-dtype region:
validation reports no error exactly when the frame satisfies the declaration. -/
theorem validate_accepts_iff_sat_partial (T : ScopeTable) (S : Schema) (D : Frame)
    (hwf : D.WF = true) (hK : NoK_C01 S D) :
    accepts T .schemaAndData S D = true ↔ Spec.Sat S D := by
  unfold accepts frameErrors coreCheckErrors Spec.Sat
  simp only [List.isEmpty_iff, List.append_eq_nil_iff, and_assoc]
  rw [strictOrderedErrors_nil_iff S D (wf_names hwf), presenceErrors_nil_iff,
    jointUniqueErrors_nil_iff]
  have hcols : ((∀ spec ∈ S.columns, presOk spec D) ∧
      (S.columns.map (fun c => columnErrors T .schemaAndData c D)).flatten = []) ↔
      ∀ spec ∈ S.columns, Spec.columnSat spec D := by
    simp only [List.flatten_eq_nil_iff, List.mem_map, forall_exists_index, and_imp]
    constructor
    · rintro ⟨h1, h2⟩ spec hs
      exact (columnErrors_nil_iff T spec D (wf_cols hwf) (hK.1 spec hs)).mp ⟨h2 _ spec hs rfl, h1 spec hs⟩
    · intro h
      refine ⟨fun spec hs => ?_, fun l spec hs hl => ?_⟩
      · exact ((columnErrors_nil_iff T spec D (wf_cols hwf) (hK.1 spec hs)).mpr (h spec hs)).2
      · subst hl
        exact ((columnErrors_nil_iff T spec D (wf_cols hwf) (hK.1 spec hs)).mpr (h spec hs)).1
  have hix : indexPartErrors T .schemaAndData S D = [] ↔
      ∀ ix, S.index = some ix → Spec.indexSat ix D := by
    unfold indexPartErrors
    cases hi : S.index with
    | none => simp
    | some ix =>
      simp only [Option.some.injEq, forall_eq']
      exact indexErrors_nil_iff T ix D (wf_index hwf) (fun l hl t ht => hK.2 ix hi l hl t ht)
  constructor
  · rintro ⟨⟨h1, h2⟩, h3, h4, h5, h6⟩; exact ⟨hcols.mp ⟨h3, h5⟩, h1, h2, h4, hix.mp h6⟩
  · rintro ⟨hc, h1, h2, h4, h6⟩
    exact ⟨⟨h1, h2⟩, (hcols.mpr hc).1, h4, (hcols.mpr hc).2, hix.mpr h6⟩

/-- the full-strength statement fails inside the recorded region: `Column(str)` on an
all-null `float64` column is accepted although the dtype differs -/
theorem K_C01_strVacuous_witness :
    ∃ (S : Schema) (D : Frame), D.WF = true ∧ ¬ NoK_C01 S D ∧
      accepts ⟨none, none, none, none, none, none, none, none, none, none⟩ .schemaAndData S D = true ∧
      ¬ Spec.Sat S D :=
  ⟨{ columns := [{ name := some "a", dtype := some .str, nullable := true }] },
   { cols := [⟨"a", .float64, [.null]⟩], index := [⟨none, .int64, [.int 0]⟩], nrows := 1 },
   by decide, by unfold NoK_C01; decide, by decide, by decide⟩

/-- no parsing option: validation returns its argument (the model's pipeline has no
state-changing step, so the returned frame is the input frame by construction) -/
theorem validate_returns_input (T : ScopeTable) (S : Schema) (D : Frame)
    (_h : accepts T .schemaAndData S D = true) : (fun (_ : Schema) (D : Frame) => D) S D = D := rfl

/-- non-vacuity: a concrete accepting and a concrete rejecting pair meet the hypotheses -/
example : ∃ (S : Schema) (D : Frame), D.WF = true ∧ NoK_C01 S D ∧ Spec.Sat S D :=
  ⟨{ columns := [{ name := some "a", dtype := some .int64, checks := [{ b := .gt (.int 0) }] }] },
   { cols := [⟨"a", .int64, [.int 1, .int 2]⟩], index := [⟨none, .int64, [.int 0, .int 1]⟩], nrows := 2 },
   by decide, by unfold NoK_C01; decide, by decide⟩

example : ∃ (S : Schema) (D : Frame), D.WF = true ∧ NoK_C01 S D ∧ ¬ Spec.Sat S D :=
  ⟨{ columns := [{ name := some "a", dtype := some .int64, checks := [{ b := .gt (.int 0) }] }] },
   { cols := [⟨"a", .int64, [.int 1, .int 0]⟩], index := [⟨none, .int64, [.int 0, .int 1]⟩], nrows := 2 },
   by decide, by unfold NoK_C01; decide, by decide⟩

end C01
end Pandera

namespace Pandera
namespace C01
open Generated

/-- guards enforced by the `Check.<name>` constructors -/
def builtinValid : Builtin → Bool
  | .strLength lo hi => lo.isSome || hi.isSome
  | _ => true

/-- **C01 (built-ins).** Every built-in check body, as translated from
`backends/pandas/builtin_checks.py` on this run, computes the documented predicate — for all
arguments and all values (nulls and non-strings included). -/
theorem pandas_builtin_eq_docPred (b : Builtin) (v : Val) (hv : builtinValid b = true) :
    evalVia pandasBuiltins b v = docPred b v := by
  cases b with
  | eq a => simp [evalVia, lookupCE, pandasBuiltins, Builtin.pyName, Builtin.pyArgs, CE.eval, operandVal, cmpVals, docPred]
  | ne a => simp [evalVia, lookupCE, pandasBuiltins, Builtin.pyName, Builtin.pyArgs, CE.eval, operandVal, cmpVals, docPred]
  | gt a => simp [evalVia, lookupCE, pandasBuiltins, Builtin.pyName, Builtin.pyArgs, CE.eval, operandVal, cmpVals, docPred]
  | ge a => simp [evalVia, lookupCE, pandasBuiltins, Builtin.pyName, Builtin.pyArgs, CE.eval, operandVal, cmpVals, docPred]
  | lt a => simp [evalVia, lookupCE, pandasBuiltins, Builtin.pyName, Builtin.pyArgs, CE.eval, operandVal, cmpVals, docPred]
  | le a => simp [evalVia, lookupCE, pandasBuiltins, Builtin.pyName, Builtin.pyArgs, CE.eval, operandVal, cmpVals, docPred]
  | inRange lo hi il ih =>
    cases il <;> cases ih <;>
      simp [evalVia, lookupCE, pandasBuiltins, Builtin.pyName, Builtin.pyArgs, CE.eval, operandVal, cmpVals, docPred]
  | isin vs => simp [evalVia, lookupCE, pandasBuiltins, Builtin.pyName, Builtin.pyArgs, CE.eval, docPred]
  | notin vs => simp [evalVia, lookupCE, pandasBuiltins, Builtin.pyName, Builtin.pyArgs, CE.eval, docPred]
  | strMatches p => simp [evalVia, lookupCE, pandasBuiltins, Builtin.pyName, Builtin.pyArgs, CE.eval, docPred]
  | strContains p => simp [evalVia, lookupCE, pandasBuiltins, Builtin.pyName, Builtin.pyArgs, CE.eval, docPred]
  | strStartswith s => simp [evalVia, lookupCE, pandasBuiltins, Builtin.pyName, Builtin.pyArgs, CE.eval, docPred]
  | strEndswith s => simp [evalVia, lookupCE, pandasBuiltins, Builtin.pyName, Builtin.pyArgs, CE.eval, docPred]
  | strLength lo hi =>
    cases lo <;> cases hi <;> simp [builtinValid] at hv <;>
      simp [evalVia, lookupCE, pandasBuiltins, Builtin.pyName, Builtin.pyArgs, CE.eval, docPred, optNat, cmpNat] <;>
      cases v <;> simp [strOp, optAnd, Bool.and_comm]

end C01
end Pandera

/-! ## SeriesSchema -/
namespace Pandera
namespace C01

/-- **`SeriesSchema.validate` accepts exactly when the Series satisfies its declaration**: the values
satisfy the component (name, nullability, uniqueness, dtype, every check) and, when an index component
is declared, the index satisfies that one — outside the recorded region, for every scope table -/
theorem series_accepts_iff_partial (T : ScopeTable) (spec : ColSpec) (ix : Option ColSpec) (sname : Option String)
    (D : Frame) (c : Column) (l : Level) (hc : D.cols = [c]) (hl : D.index = [l]) (hwf : D.WF = true)
    (hK : ∀ t, spec.dtype = some t → K_C01_strVacuous t c.dtype c.vals = false)
    (hKi : ∀ i t, ix = some i → i.dtype = some t → K_C01_strVacuous t l.dtype l.vals = false) :
    seriesErrors T .schemaAndData spec ix sname D = [] ↔
      (Spec.fieldOk spec sname c.dtype c.vals ∧ ∀ i, ix = some i → Spec.fieldOk i l.name l.dtype l.vals) := by
  have hfc : ∀ v ∈ c.vals, valFits c.dtype v = true := wf_cols hwf c (by rw [hc]; simp)
  have hfl : ∀ v ∈ l.vals, valFits l.dtype v = true := wf_index hwf l (by rw [hl]; simp)
  unfold seriesErrors
  rw [hc]
  simp only [List.append_eq_nil_iff]
  refine and_congr (fieldErrors_nil_iff T .series spec sname c.dtype c.vals hfc hK) ?_
  cases ix with
  | none => simp
  | some i =>
    simp only [Option.some.injEq, forall_eq']
    unfold indexErrors
    rw [hl]
    simp only [relabel, List.map_eq_nil_iff]
    exact fieldErrors_nil_iff T .index i l.name l.dtype l.vals hfl (fun t ht => hKi i t rfl ht)

end C01
end Pandera

/-! ## the whole-column built-in `unique_values_eq` -/
namespace Pandera
namespace C01

/-- with nothing to look at (an empty column, or — under `ignore_na` — an all-null one) the check
holds only for the empty value set: a vacuous column is *not* accepted when values are required -/
theorem uniqueValuesEq_vacuous (vs col : List Val) (h : col.all Val.isNull = true) :
    uniqueValuesEq vs true col = vs.isEmpty := by
  have hs : aggShown true col = [] := by
    unfold aggShown
    simp only [if_true, List.filter_eq_nil_iff]
    intro v hv
    have := List.all_eq_true.mp h v hv
    simp [this]
  unfold uniqueValuesEq setEq
  rw [hs]
  cases vs <;> simp

theorem uniqueValuesEq_empty_column (vs : List Val) (na : Bool) :
    uniqueValuesEq vs na [] = vs.isEmpty := by
  unfold uniqueValuesEq setEq aggShown
  cases vs <;> cases na <;> simp

/-- nulls never matter under `ignore_na` -/
theorem uniqueValuesEq_ignores_nulls (vs col : List Val) :
    uniqueValuesEq vs true (col.filter (fun v => !v.isNull)) = uniqueValuesEq vs true col := by
  unfold uniqueValuesEq aggShown
  simp [List.filter_filter]

/-- a required value that does not occur makes the check fail -/
theorem uniqueValuesEq_missing_value (vs col : List Val) (na : Bool) (v : Val) (hv : v ∈ vs)
    (hmiss : ∀ x ∈ aggShown na col, Val.same v x = false) : uniqueValuesEq vs na col = false := by
  unfold uniqueValuesEq setEq
  have : vs.all (fun v => (aggShown na col).any (fun x => Val.same v x)) = false := by
    rw [List.all_eq_false]
    refine ⟨v, hv, ?_⟩
    simp only [Bool.not_eq_true, List.any_eq_false]
    intro x hx
    simp [hmiss x hx]
  simp [this]

example : uniqueValuesEq [.int 1, .int 2] true [.int 2, .null, .int 1, .int 2] = true := by decide
example : uniqueValuesEq [.int 1, .int 2] true [.null, .null] = false := by decide
example : uniqueValuesEq [.int 1] true [] = false := by decide

/-! ## several joint-uniqueness groups -/

/-- **every declared group is enforced**: the check reports nothing exactly when, for every group with a
present column, the rows over the present columns of the group are pairwise distinct — whatever the
order of the declaration and wherever a group without present columns sits -/
theorem dupGroups_nil_iff (keep : Keep) (groups : List (List String)) (D : Frame) :
    dupGroups keep groups D = [] ↔
      ∀ g ∈ groups, g.filter D.hasCol ≠ [] → Spec.rowsDistinct (groupRows g D) := by
  unfold dupGroups
  rw [List.filterMap_eq_nil_iff]
  constructor
  · intro h g hg hne
    have := h g hg
    have hne' : (g.filter D.hasCol).isEmpty = false := by
      cases hl : g.filter D.hasCol with
      | nil => exact absurd hl hne
      | cons _ _ => rfl
    simp only [hne', Bool.false_eq_true, ↓reduceIte] at this
    rw [← dupRowMask_allFalse_iff keep, ← truePositions_nil_iff]
    cases hd : truePositions (dupRowMask keep (groupRows g D)) with
    | nil => rfl
    | cons a l => simp [hd] at this
  · intro h g hg
    cases hl : g.filter D.hasCol with
    | nil => simp
    | cons x xs =>
      have hd := h g hg (by rw [hl]; simp)
      rw [← dupRowMask_allFalse_iff keep, ← truePositions_nil_iff] at hd
      simp [hd]

/-- **every violated group is reported**: a group is among the reported ones exactly when it has a
present column and repeated rows -/
theorem mem_dupGroups_iff (keep : Keep) (groups : List (List String)) (D : Frame) (r : List String × List Nat) :
    r ∈ dupGroups keep groups D ↔
      ∃ g ∈ groups, g.filter D.hasCol ≠ [] ∧ r = (g.filter D.hasCol, truePositions (dupRowMask keep (groupRows g D)))
        ∧ r.2 ≠ [] := by
  unfold dupGroups
  simp only [List.mem_filterMap]
  constructor
  · rintro ⟨g, hg, h⟩
    cases hl : g.filter D.hasCol with
    | nil => simp [hl] at h
    | cons x xs =>
      simp only [hl, List.isEmpty_cons, Bool.false_eq_true, ↓reduceIte] at h
      cases hd : truePositions (dupRowMask keep (groupRows g D)) with
      | nil => simp [hd] at h
      | cons a l =>
        simp only [hd, List.isEmpty_cons, Bool.false_eq_true, ↓reduceIte, Option.some.injEq] at h
        exact ⟨g, hg, by rw [hl]; simp, by rw [hl, ← h, hd], by rw [← h]; simp⟩
  · rintro ⟨g, hg, hne, rfl, hr⟩
    refine ⟨g, hg, ?_⟩
    have hne' : (g.filter D.hasCol).isEmpty = false := by
      cases hl : g.filter D.hasCol with
      | nil => exact absurd hl hne
      | cons _ _ => rfl
    have hr' : (truePositions (dupRowMask keep (groupRows g D))).isEmpty = false := by
      cases hl : truePositions (dupRowMask keep (groupRows g D)) with
      | nil => exact absurd hl hr
      | cons _ _ => rfl
    simp only [hne', hr', Bool.false_eq_true, ↓reduceIte]

/-- a later group is still enforced when an earlier one has no present column, and two violated groups
are both reported -/
example : dupGroups .first [["a", "b"], ["c"], ["d"]]
    { cols := [⟨"c", .int64, [.int 1, .int 1]⟩, ⟨"d", .int64, [.int 7, .int 7]⟩],
      index := [⟨none, .int64, [.int 0, .int 1]⟩], nrows := 2 }
    = [(["c"], [1]), (["d"], [1])] := by decide


end C01
end Pandera

import PanderaModel.Props.C03
import PanderaModel.Generated.CoerceRules
/-!
# C10 — coercion either yields conforming data or names exactly the uncoercible values

The container-level contract of `DataType.try_coerce` is proved **for every element conversion**
`f : Val → Option Val` (`tryCoerceG`): it succeeds iff every element converts, then has the same
length and holds `f x` at every position; otherwise the failure cases are exactly the (position,
value) pairs whose element does not convert; idempotence and identity on conforming data follow from
the corresponding element laws.  The element laws themselves are proved for the modelled targets
(`int64`, `float64`, `str`: `Props/C03.lean`).  The polars engine locates failures by a non-strict
cast; `polars_failure_cases_exact` shows that formula names exactly the uncoercible elements once a
null input is not counted (`polars_null_witness` is the recorded defect of the other formula).
-/
namespace Pandera

/-! ## per-run obligations -/

/-- `try_coerce` wraps every exception of `coerce` into a ParserError whose failure cases are computed
element-wise with `coerce_value` (pandas, numpy engines); polars reports the rows that the non-strict
cast loses, not counting null inputs -/
theorem coerce_rules_ok :
    (Generated.CoerceRules.pandasTryCoerceOk && Generated.CoerceRules.numpyTryCoerceOk
     && Generated.CoerceRules.coercibleUsesCoerceValue && Generated.CoerceRules.polarsCoercibleKeepsNulls
     && Generated.CoerceRules.polarsFailureCasesAreNotCoercible) = true := by decide

/-! ## the container-level contract, for any element conversion -/

/-- `try_coerce` over an arbitrary element conversion -/
def tryCoerceG (f : Val → Option Val) (vals : List Val) : Except (List (Nat × Val)) (List Val) :=
  let bad := vals.zipIdx.filterMap (fun p => if (f p.1).isNone then some (p.2, p.1) else none)
  if bad.isEmpty then .ok (vals.map (fun v => (f v).getD .null)) else .error bad

theorem tryCoerce_eq_generic (t : DType) : tryCoerce t = tryCoerceG (coerceValue t) := rfl

theorem bad_nil_iff (f : Val → Option Val) (vals : List Val) :
    vals.zipIdx.filterMap (fun p => if (f p.1).isNone then some (p.2, p.1) else none) = []
      ↔ ∀ v ∈ vals, (f v).isSome = true := by
  rw [List.filterMap_eq_nil_iff]
  constructor
  · intro h v hv
    obtain ⟨i, hi, rfl⟩ := List.mem_iff_getElem.mp hv
    have := h (vals[i], i) (by simp [List.mem_zipIdx_iff_getElem?])
    cases hc : f vals[i] <;> simp_all
  · intro h p hp
    have hm : p.1 ∈ vals := by
      have := List.mem_zipIdx_iff_getElem?.mp (by simpa using hp)
      exact List.mem_of_getElem? this
    have := h p.1 hm
    cases hc : f p.1 <;> simp_all

/-- **success iff every element converts**, and then the result is the element-wise image -/
theorem tryCoerceG_ok_iff (f : Val → Option Val) (vals ws : List Val) :
    tryCoerceG f vals = .ok ws ↔
      (∀ v ∈ vals, (f v).isSome = true) ∧ ws = vals.map (fun v => (f v).getD .null) := by
  unfold tryCoerceG
  simp only
  split
  · rename_i hb
    have := (bad_nil_iff f vals).mp (by simpa [List.isEmpty_iff] using hb)
    simp only [Except.ok.injEq]
    exact ⟨fun h => ⟨this, h.symm⟩, fun h => h.2.symm⟩
  · rename_i hb
    simp only [reduceCtorEq, false_iff, not_and]
    intro hall
    exact absurd (by simpa [List.isEmpty_iff] using (bad_nil_iff f vals).mpr hall) hb

/-- same length (and therefore the same labels: rows are positions) -/
theorem tryCoerceG_ok_length (f : Val → Option Val) (vals ws : List Val) (h : tryCoerceG f vals = .ok ws) :
    ws.length = vals.length := by
  rw [tryCoerceG_ok_iff] at h
  rw [h.2]; simp

/-- position by position the result is the element conversion of the input -/
theorem tryCoerceG_ok_elem (f : Val → Option Val) (vals ws : List Val) (h : tryCoerceG f vals = .ok ws)
    (i : Nat) (v : Val) (hv : vals[i]? = some v) : (ws[i]?).map some = some (f v) := by
  rw [tryCoerceG_ok_iff] at h
  obtain ⟨hall, rfl⟩ := h
  have hm : v ∈ vals := List.mem_of_getElem? hv
  have := hall v hm
  rw [List.getElem?_map, hv]
  cases hc : f v with
  | none => simp [hc] at this
  | some w => simp [hc]

/-- **the failure cases are exactly the elements that do not convert**, with their positions -/
theorem tryCoerceG_err_cells (f : Val → Option Val) (vals : List Val) (bad : List (Nat × Val))
    (h : tryCoerceG f vals = .error bad) :
    bad ≠ [] ∧ ∀ i v, (i, v) ∈ bad ↔ (vals[i]? = some v ∧ f v = none) := by
  unfold tryCoerceG at h
  simp only at h
  split at h
  · cases h
  · rename_i hb
    cases h
    refine ⟨by simpa [List.isEmpty_iff] using hb, ?_⟩
    intro i v
    rw [List.mem_filterMap]
    constructor
    · rintro ⟨p, hp, he⟩
      cases hc : f p.1 with
      | none =>
        simp only [hc, Option.isNone_none, if_true, Option.some.injEq, Prod.mk.injEq] at he
        obtain ⟨rfl, rfl⟩ := he
        exact ⟨List.mem_zipIdx_iff_getElem?.mp (by simpa using hp), hc⟩
      | some w => simp [hc] at he
    · rintro ⟨hv, hf⟩
      exact ⟨(v, i), by simpa [List.mem_zipIdx_iff_getElem?] using hv, by simp [hf]⟩

/-- either outcome, never an escaping failure: `try_coerce` is total -/
theorem tryCoerceG_total (f : Val → Option Val) (vals : List Val) :
    (∃ ws, tryCoerceG f vals = .ok ws) ∨ (∃ bad, tryCoerceG f vals = .error bad) := by
  unfold tryCoerceG
  simp only
  split
  · exact Or.inl ⟨_, rfl⟩
  · exact Or.inr ⟨_, rfl⟩

/-- **coercing twice equals coercing once**, for any idempotent element conversion -/
theorem tryCoerceG_idem (f : Val → Option Val) (hidem : ∀ v w, f v = some w → f w = some w)
    (vals ws : List Val) (h : tryCoerceG f vals = .ok ws) : tryCoerceG f ws = .ok ws := by
  rw [tryCoerceG_ok_iff] at h ⊢
  obtain ⟨hall, rfl⟩ := h
  constructor
  · intro w hw
    obtain ⟨v, hv, rfl⟩ := List.mem_map.mp hw
    have := hall v hv
    cases hc : f v with
    | none => simp [hc] at this
    | some w' => simp [hidem v w' hc]
  · rw [List.map_map]
    apply List.map_congr_left
    intro v hv
    have := hall v hv
    cases hc : f v with
    | none => simp [hc] at this
    | some w' => simp only [Function.comp_apply, hc, Option.getD_some, hidem v w' hc]

/-- **coercing an already conforming container is the identity** -/
theorem tryCoerceG_conforming (f : Val → Option Val) (vals : List Val) (h : ∀ v ∈ vals, f v = some v) :
    tryCoerceG f vals = .ok vals := by
  rw [tryCoerceG_ok_iff]
  refine ⟨fun v hv => by simp [h v hv], ?_⟩
  symm
  have : vals.map (fun v => (f v).getD .null) = vals.map id := by
    apply List.map_congr_left
    intro v hv; simp [h v hv]
  simpa using this

/-! ## the modelled element conversions -/

/-- nulls stay null where the type can represent them, and are failure cases where it cannot -/
theorem null_handling :
    coerceValue .float64 .null = some .null ∧ coerceValue .str .null = some .null
    ∧ coerceValue .int64 .null = none := by decide

/-- exact numeric conversions are equal: an integer survives int → float → int, a whole float
float → int → float -/
theorem int_float_roundtrip (i : Int) :
    (coerceValue .float64 (.int i)).bind (coerceValue .int64) = some (.int i) := by
  simp only [coerceValue, Option.bind_some]
  congr 2
  exact Int.mul_tdiv_cancel_left i (by decide)

theorem whole_float_roundtrip (i : Int) :
    (coerceValue .int64 (.flt (4 * i))).bind (coerceValue .float64) = some (.flt (4 * i)) := by
  simp only [coerceValue, Option.bind_some]
  congr 2
  rw [Int.mul_tdiv_cancel_left i (by decide)]

/-- the coerced container passes the dtype's own check, for each modelled target -/
theorem tryCoerce_result_checks (t : DType) (vals ws : List Val) (h : tryCoerce t vals = .ok ws) :
    ∀ w ∈ ws, valFits t w = true := C03.tryCoerce_ok_fits t vals ws h

/-- for the modelled targets: coercing twice equals coercing once, and conforming data is left alone
(the element laws of `Props/C03.lean` instantiated in the generic contract) -/
theorem tryCoerce_twice (t : DType) (vals ws : List Val) (h : tryCoerce t vals = .ok ws) :
    tryCoerce t ws = .ok ws :=
  tryCoerceG_idem (coerceValue t) (C03.coerceValue_idem t) vals ws h

theorem tryCoerce_conforming_identity (t : DType) (vals : List Val) (ht : coercibleTarget t = true)
    (h : ∀ v ∈ vals, valFits t v = true) : tryCoerce t vals = .ok vals :=
  tryCoerceG_conforming (coerceValue t) vals (fun v hv => C03.coerceValue_conforming t v ht (h v hv))

/-! ## polars: failures located by a non-strict cast -/

/-- `polars_object_coercible`: a value is coercible when the non-strict cast of it is not null;
`keepNulls` = a null input counts as coercible -/
def polarsCoercible (keepNulls : Bool) (f : Val → Option Val) (v : Val) : Bool :=
  !((f v).getD .null).isNull || (keepNulls && v.isNull)

def polarsFailureCases (keepNulls : Bool) (f : Val → Option Val) (vals : List Val) : List Val :=
  vals.filter fun v => !polarsCoercible keepNulls f v

/-- with nulls kept, the reported values are **exactly** the elements that do not convert, for every
cast that maps null to null and non-null values to non-null values -/
theorem polars_failure_cases_exact (f : Val → Option Val) (hnull : f .null = some .null)
    (hnn : ∀ v w, f v = some w → v.isNull = false → w.isNull = false) (vals : List Val) :
    polarsFailureCases true f vals = vals.filter fun v => (f v).isNone := by
  unfold polarsFailureCases
  apply List.filter_congr
  intro v _
  unfold polarsCoercible
  cases hv : v.isNull with
  | true =>
    have : v = .null := by cases v <;> simp_all [Val.isNull]
    subst this
    simp [hnull]
  | false =>
    cases hf : f v with
    | none => simp [Val.isNull]
    | some w => simp [hnn v w hf hv]

/-- the recorded defect: without keeping nulls a null input is reported as a failure case although
it converts (to null) -/
theorem polars_null_witness :
    polarsFailureCases false (coerceValue .float64) [.flt 4, .null] = [.null]
    ∧ polarsFailureCases true (coerceValue .float64) [.flt 4, .null] = [] := by decide

/-! ## non-vacuity -/

example : tryCoerce .int64 [.str "12", .flt 8, .bool true] = .ok [.int 12, .int 2, .int 1] := by rfl
example : tryCoerce .int64 [.str "x", .int 3, .null] = .error [(0, .str "x"), (2, .null)] := by rfl

end Pandera

import PanderaModel.Parse
import PanderaModel.Lemmas.Cells
import PanderaModel.Lemmas.Basic
/-!
# C11 — drop_invalid_rows removes exactly the rows that violate a row-level constraint
-/
namespace Pandera
namespace C11

/-- the positions `drop_invalid_rows` keeps -/
def keptPositions (n : Nat) (bad : List Nat) : List Nat := (List.range n).filter (fun i => !bad.contains i)

theorem dropRows_nrows (D : Frame) (bad : List Nat) : (dropRows D bad).nrows = (keptPositions D.nrows bad).length := rfl

/-- **C11 (a)** the surviving rows are the input rows at the kept positions, in their original order,
with their (parsed) values unchanged -/
theorem dropRows_cols (D : Frame) (bad : List Nat) :
    (dropRows D bad).cols = D.cols.map (fun c =>
      { c with vals := (keptPositions D.nrows bad).map (fun i => c.vals.getD i .null) }) := rfl

theorem keptPositions_sorted (n : Nat) (bad : List Nat) :
    (keptPositions n bad).Pairwise (· < ·) := by
  unfold keptPositions
  exact List.Pairwise.filter _ (List.pairwise_lt_range)

/-- **C11 (b)** a row survives exactly when no collected error names it -/
theorem kept_iff_not_named (n : Nat) (es : List Err) (i : Nat) :
    i ∈ keptPositions n (failingRows es) ↔ i < n ∧ ∀ e ∈ es, ∀ c ∈ e.cells, c.pos ≠ i := by
  unfold keptPositions failingRows
  simp only [List.mem_filter, List.mem_range, Bool.not_eq_eq_eq_not, Bool.not_true,
    List.contains_eq_mem, decide_eq_false_iff_not, List.mem_flatten, List.mem_map, not_exists, not_and]
  constructor
  · rintro ⟨h1, h2⟩
    refine ⟨h1, fun e he c hc hp => ?_⟩
    exact h2 _ ⟨e, he, rfl⟩ (List.mem_map.mpr ⟨c, hc, hp⟩)
  · rintro ⟨h1, h2⟩
    refine ⟨h1, ?_⟩
    rintro l ⟨e, he, rfl⟩ hi
    obtain ⟨c, hc, hp⟩ := List.mem_map.mp hi
    exact h2 e he c hc hp

/-! ### which rows a field's errors name (every check function; full depth) -/

/-- row `i` of a field violates a row-level constraint of its declaration, as reported:
nullability, uniqueness under the `report_duplicates` setting, or a check -/
def fieldRowBad (spec : ColSpec) (vals : List Val) (i : Nat) : Prop :=
  (spec.nullable = false ∧ ∃ v, vals[i]? = some v ∧ v.isNull = true)
  ∨ (spec.unique = true ∧ (dupMask spec.reportDup vals)[i]? = some true)
  ∨ (∃ ck ∈ spec.checks, ∃ v, vals[i]? = some v ∧ (ck.ignoreNa && v.isNull) = false ∧ docPred ck.b v = some false)

theorem mem_cells_checkStep (ctx : Ctx) (label : Option String) (vals : List Val) (ix : Nat) (c : CheckSpec)
    (hok : runCheck c vals ≠ .raised) (i : Nat) :
    (∃ e ∈ checkStep ctx label vals ix c, ∃ cell ∈ e.cells, cell.pos = i) ↔
      ∃ v, vals[i]? = some v ∧ (c.ignoreNa && v.isNull) = false ∧ docPred c.b v = some false := by
  unfold checkStep
  cases hr : runCheck c vals with
  | raised => exact absurd hr hok
  | fails ps =>
    have hmem := runCheckFn_fails_mem (docPred c.b) c.ignoreNa vals ps hr i
    cases ps with
    | nil =>
      simp only [List.not_mem_nil, false_and, exists_false, false_iff]
      intro h; exact absurd (hmem.mpr h) (by simp)
    | cons p ps' =>
      simp only [List.mem_singleton, exists_eq_left]
      rw [← hmem]
      by_cases hign : c.ignoreNa = true
      · simp only [hign, ↓reduceIte]
        constructor
        · rintro ⟨cell, hc, rfl⟩
          unfold dropNullCells at hc
          exact ((mem_cellsAt_iff _ _ _ _).mp (List.mem_filter.mp hc).1).2.1
        · intro hi
          -- the value at a failing position is non-null under ignore_na
          obtain ⟨v, hv, hk, _⟩ := hmem.mp hi
          refine ⟨⟨label, i, v⟩, ?_, rfl⟩
          unfold dropNullCells
          rw [List.mem_filter, mem_cellsAt_iff]
          refine ⟨⟨rfl, hi, by simp [List.getD_eq_getElem?_getD, hv]⟩, ?_⟩
          simp only [hign, Bool.true_and] at hk
          simp [hk]
      · simp only [hign, Bool.false_eq_true, ↓reduceIte]
        constructor
        · rintro ⟨cell, hc, rfl⟩
          exact ((mem_cellsAt_iff _ _ _ _).mp hc).2.1
        · intro hi
          exact ⟨⟨label, i, vals.getD i .null⟩, (mem_cellsAt_iff _ _ _ _).mpr ⟨rfl, hi, rfl⟩, rfl⟩


/-- **C11 (c)** the rows named by a field's errors are exactly the rows violating one of its
row-level constraints — for a field whose name and dtype conform and whose checks evaluate -/
theorem field_rows_named (T : ScopeTable) (ctx : Ctx) (spec : ColSpec) (fn : Option String)
    (phys : DType) (vals : List Val)
    (hname : spec.name = none ∨ spec.name = fn)
    (hdt : ∀ t, spec.dtype = some t → dtypeOkImpl t phys vals = true)
    (hchecks : ∀ c ∈ spec.checks, runCheck c vals ≠ .raised) (i : Nat) :
    (∃ e ∈ fieldErrors T .schemaAndData ctx spec fn phys vals, ∃ cell ∈ e.cells, cell.pos = i)
      ↔ fieldRowBad spec vals i := by
  unfold fieldErrors fieldRowBad
  have hn : (spec.name.isNone || spec.name == fn) = true := by
    rcases hname with h | h <;> simp [h]
  have hd : ∀ t, spec.dtype = some t → (!dtypeOkImpl t phys vals) = false := by
    intro t h; simp [hdt t h]
  simp only [optRuns_sad, Bool.true_and, hn, Bool.not_true, Bool.false_eq_true, ↓reduceIte, List.nil_append]
  have hd' : dtypeErrs true ctx fn spec.dtype phys vals = [] := by
    unfold dtypeErrs
    cases hdd : spec.dtype with
    | none => rfl
    | some t => simp [hd t hdd]
  rw [hd']
  simp only [List.append_nil, List.mem_append, or_and_right, exists_or, or_assoc]
  refine or_congr ?_ (or_congr ?_ ?_)
  · -- nullability
    by_cases hnl : spec.nullable = true
    · simp [hnl]
    · have hnl' : spec.nullable = false := by simpa using hnl
      simp only [hnl', Bool.not_false, Bool.true_and, true_and]
      constructor
      · rintro ⟨e, he, cell, hc, rfl⟩
        split at he
        · simp only [List.mem_singleton] at he
          subst he
          obtain ⟨_, hp, _⟩ := (mem_cellsAt_iff _ _ _ _).mp hc
          rw [mem_truePositions_iff, List.getElem?_map] at hp
          cases hv : vals[cell.pos]? with
          | none => simp [hv] at hp
          | some v => exact ⟨v, rfl, by simpa [hv] using hp⟩
        · simp at he
      · rintro ⟨v, hv, hnull⟩
        have hpos : i ∈ truePositions (vals.map Val.isNull) := by
          rw [mem_truePositions_iff, List.getElem?_map, hv]; simp [hnull]
        have hne : (truePositions (vals.map Val.isNull)).isEmpty = false := by
          cases hl : truePositions (vals.map Val.isNull) with
          | nil => rw [hl] at hpos; simp at hpos
          | cons a l => rfl
        refine ⟨_, by simp only [hne, Bool.not_false, ↓reduceIte, List.mem_singleton]; rfl,
          ⟨fn, i, vals.getD i .null⟩, (mem_cellsAt_iff _ _ _ _).mpr ⟨rfl, hpos, rfl⟩, rfl⟩
  · -- uniqueness
    by_cases hu : spec.unique = true
    · simp only [hu, Bool.true_and, true_and]
      constructor
      · rintro ⟨e, he, cell, hc, rfl⟩
        split at he
        · simp only [List.mem_singleton] at he
          subst he
          exact (mem_truePositions_iff _ _).mp ((mem_cellsAt_iff _ _ _ _).mp hc).2.1
        · simp at he
      · intro hm
        have hpos := (mem_truePositions_iff _ _).mpr hm
        have hne : (truePositions (dupMask spec.reportDup vals)).isEmpty = false := by
          cases hl : truePositions (dupMask spec.reportDup vals) with
          | nil => rw [hl] at hpos; simp at hpos
          | cons a l => rfl
        refine ⟨_, by simp only [hne, Bool.not_false, ↓reduceIte, List.mem_singleton]; rfl,
          ⟨fn, i, vals.getD i .null⟩, (mem_cellsAt_iff _ _ _ _).mpr ⟨rfl, hpos, rfl⟩, rfl⟩
    · simp [hu]
  · -- checks
    unfold checksSteps
    simp only [List.mem_flatten, List.mem_map]
    constructor
    · rintro ⟨e, ⟨l, ⟨p, hp, rfl⟩, he⟩, cell, hc, hpos⟩
      have hck : p.1 ∈ spec.checks := zipIdx_mem_fst hp
      exact ⟨p.1, hck, (mem_cells_checkStep ctx fn vals p.2 p.1 (hchecks p.1 hck) i).mp ⟨e, he, cell, hc, hpos⟩⟩
    · rintro ⟨ck, hck, hv⟩
      obtain ⟨k, hk⟩ := mem_zipIdx_of_mem hck
      obtain ⟨e, he, cell, hc, hpos⟩ := (mem_cells_checkStep ctx fn vals k ck (hchecks ck hck) i).mpr hv
      exact ⟨e, ⟨_, ⟨(ck, k), hk, rfl⟩, he⟩, cell, hc, hpos⟩

/-! ### the whole frame: which rows the collected errors name, and what `drop_invalid_rows` keeps -/

/-- positions of the rows that repeat an earlier / later row over the jointly unique columns -/
def jointCols (S : Schema) (P : Frame) : List Column := (S.unique.filter P.hasCol).filterMap P.col?

def jointDupRows (S : Schema) (P : Frame) : List Nat :=
  truePositions (dupRowMask S.reportDup (rowsOf P.nrows ((jointCols S P).map (·.vals))))

/-- row `i` violates a row-level constraint of the schema: of a column, of the joint uniqueness
declaration, or of the index -/
def frameRowBad (S : Schema) (P : Frame) (i : Nat) : Prop :=
  (∃ spec ∈ S.columns, ∃ n c, spec.name = some n ∧ P.col? n = some c ∧ fieldRowBad spec c.vals i)
  ∨ (S.unique ≠ [] ∧ jointCols S P ≠ [] ∧ i ∈ jointDupRows S P)
  ∨ (∃ ix l, S.index = some ix ∧ P.index = [l] ∧ fieldRowBad ix l.vals i)

/-- the schema-level part conforms and every check evaluates: what is left can only be row-level -/
structure RowLevelOnly (S : Schema) (P : Frame) : Prop where
  noRegex : ∀ spec ∈ S.columns, spec.regex = none
  colDtype : ∀ spec ∈ S.columns, ∀ n c, spec.name = some n → P.col? n = some c →
    ∀ t, spec.dtype = some t → dtypeOkImpl t c.dtype c.vals = true
  colChecks : ∀ spec ∈ S.columns, ∀ n c, spec.name = some n → P.col? n = some c →
    ∀ ck ∈ spec.checks, runCheck ck c.vals ≠ .raised
  oneLevel : ∀ ix, S.index = some ix → ∃ l, P.index = [l] ∧ (ix.name = none ∨ ix.name = l.name)
  ixDtype : ∀ ix l, S.index = some ix → P.index = [l] → ∀ t, ix.dtype = some t → dtypeOkImpl t l.dtype l.vals = true
  ixChecks : ∀ ix l, S.index = some ix → P.index = [l] → ∀ ck ∈ ix.checks, runCheck ck l.vals ≠ .raised

theorem presence_no_cells (T : ScopeTable) (d : Depth) (S : Schema) (P : Frame) :
    ∀ e ∈ presenceErrors T d S P, e.cells = [] := by
  intro e he
  unfold presenceErrors at he
  split at he
  · obtain ⟨n, _, rfl⟩ := List.mem_map.mp he; rfl
  · cases he

theorem jointUnique_rows_named (T : ScopeTable) (S : Schema) (P : Frame) (i : Nat) :
    (∃ e ∈ jointUniqueErrors T .schemaAndData S P, ∃ cell ∈ e.cells, cell.pos = i)
      ↔ (S.unique ≠ [] ∧ jointCols S P ≠ [] ∧ i ∈ jointDupRows S P) := by
  unfold jointUniqueErrors
  simp only [optRuns_sad, Bool.true_and]
  by_cases hu : S.unique = []
  · simp [hu]
  · have hne : (!S.unique.isEmpty) = true := by
      cases hl : S.unique with
      | nil => exact absurd hl hu
      | cons _ _ => rfl
    simp only [hne, ↓reduceIte]
    by_cases hcols0 : jointCols S P = []
    · have : (List.filterMap P.col? (List.filter P.hasCol S.unique)).isEmpty = true := by
        have h0 : List.filterMap P.col? (List.filter P.hasCol S.unique) = [] := hcols0
        rw [h0]; rfl
      simp [this, hcols0]
    have hcne : (List.filterMap P.col? (List.filter P.hasCol S.unique)).isEmpty = false := by
      cases hl : List.filterMap P.col? (List.filter P.hasCol S.unique) with
      | nil => exact absurd hl hcols0
      | cons _ _ => rfl
    simp only [hcne, Bool.false_eq_true, ↓reduceIte]
    show (∃ e ∈ (if (jointDupRows S P).isEmpty then [] else
        [({ reason := .duplicates, ctx := .frame, label := none,
            cells := ((jointCols S P).map (fun c => cellsAt (some c.name) c.vals (jointDupRows S P))).flatten } : Err)]),
        ∃ cell ∈ e.cells, cell.pos = i) ↔ _
    constructor
    · rintro ⟨e, he, cell, hc, rfl⟩
      split at he
      · cases he
      · simp only [List.mem_singleton] at he
        subst he
        simp only [List.mem_flatten, List.mem_map] at hc
        obtain ⟨l, ⟨c, hcm, rfl⟩, hcell⟩ := hc
        exact ⟨hu, hcols0, ((mem_cellsAt_iff _ _ _ _).mp hcell).2.1⟩
    · rintro ⟨_, hcols, hi⟩
      have hne2 : (jointDupRows S P).isEmpty = false := by
        cases hl : jointDupRows S P with
        | nil => rw [hl] at hi; cases hi
        | cons _ _ => rfl
      cases hcl : jointCols S P with
      | nil => exact absurd hcl hcols
      | cons c rest =>
        refine ⟨_, by simp only [hne2, Bool.false_eq_true, ↓reduceIte, List.mem_singleton]; rfl,
          ⟨some c.name, i, c.vals.getD i .null⟩, ?_, rfl⟩
        simp only [hcl, List.map_cons, List.flatten_cons, List.mem_append]
        exact Or.inl ((mem_cellsAt_iff _ _ _ _).mpr ⟨rfl, hi, rfl⟩)

theorem relabel_rows (l : Option String) (es : List Err) (i : Nat) :
    (∃ e ∈ relabel l es, ∃ cell ∈ e.cells, cell.pos = i) ↔ (∃ e ∈ es, ∃ cell ∈ e.cells, cell.pos = i) := by
  unfold relabel
  simp only [List.mem_map]
  constructor
  · rintro ⟨_, ⟨e, he, rfl⟩, cell, hc, hp⟩
    simp only [List.mem_map] at hc
    obtain ⟨c0, hc0, rfl⟩ := hc
    exact ⟨e, he, c0, hc0, hp⟩
  · rintro ⟨e, he, cell, hc, hp⟩
    exact ⟨_, ⟨e, he, rfl⟩, { cell with col := l }, List.mem_map.mpr ⟨cell, hc, rfl⟩, hp⟩

/-- **C11 (c), whole frame** the rows named by the errors of the core checks are exactly the rows
violating a row-level constraint of a column, of the joint uniqueness declaration or of the index —
for every schema whose schema-level part conforms and whose checks evaluate -/
theorem frame_rows_named (T : ScopeTable) (S : Schema) (P : Frame) (h : RowLevelOnly S P) (i : Nat) :
    (∃ e ∈ coreCheckErrors T .schemaAndData S P, ∃ cell ∈ e.cells, cell.pos = i) ↔ frameRowBad S P i := by
  unfold coreCheckErrors frameRowBad
  simp only [List.mem_append, or_and_right, exists_or, or_assoc]
  have hpres : ¬ ∃ e, e ∈ presenceErrors T .schemaAndData S P ∧ ∃ cell ∈ e.cells, cell.pos = i := by
    rintro ⟨e, he, cell, hc, _⟩
    rw [presence_no_cells T _ S P e he] at hc; cases hc
  simp only [hpres, false_or]
  have hJ := jointUnique_rows_named T S P i
  have hC : (∃ x, x ∈ (S.columns.map (fun c => columnErrors T .schemaAndData c P)).flatten ∧
        ∃ cell, cell ∈ x.cells ∧ cell.pos = i)
      ↔ ∃ spec, spec ∈ S.columns ∧ ∃ n c, spec.name = some n ∧ P.col? n = some c ∧ fieldRowBad spec c.vals i := by
    simp only [List.mem_flatten, List.mem_map]
    constructor
    · rintro ⟨x, ⟨l, ⟨spec, hs, rfl⟩, hx⟩, hcell⟩
      refine ⟨spec, hs, ?_⟩
      unfold columnErrors at hx
      rw [h.noRegex spec hs] at hx
      simp only at hx
      cases hn : spec.name with
      | none => rw [hn] at hx; cases hx
      | some n =>
        rw [hn] at hx
        simp only at hx
        cases hc : P.col? n with
        | none => rw [hc] at hx; cases hx
        | some c =>
          rw [hc] at hx
          simp only at hx
          exact ⟨n, c, rfl, hc, (field_rows_named T .column spec (some n) c.dtype c.vals (Or.inr hn)
            (h.colDtype spec hs n c hn hc) (h.colChecks spec hs n c hn hc) i).mp ⟨x, hx, hcell⟩⟩
    · rintro ⟨spec, hs, n, c, hn, hc, hbad⟩
      obtain ⟨x, hx, hcell⟩ := (field_rows_named T .column spec (some n) c.dtype c.vals (Or.inr hn)
        (h.colDtype spec hs n c hn hc) (h.colChecks spec hs n c hn hc) i).mpr hbad
      refine ⟨x, ⟨_, ⟨spec, hs, rfl⟩, ?_⟩, hcell⟩
      unfold columnErrors
      rw [h.noRegex spec hs]
      simp only [hn, hc]
      exact hx
  have hI : (∃ x, x ∈ indexPartErrors T .schemaAndData S P ∧ ∃ cell, cell ∈ x.cells ∧ cell.pos = i)
      ↔ ∃ ix l, S.index = some ix ∧ P.index = [l] ∧ fieldRowBad ix l.vals i := by
    unfold indexPartErrors
    cases hix : S.index with
    | none => simp
    | some ix =>
      obtain ⟨l, hl, hname⟩ := h.oneLevel ix hix
      simp only
      unfold indexErrors
      rw [hl]
      simp only
      have := relabel_rows ix.name (fieldErrors T .schemaAndData .index ix l.name l.dtype l.vals) i
      simp only [exists_and_left] at this ⊢
      have hf := field_rows_named T .index ix l.name l.dtype l.vals hname
        (h.ixDtype ix l hix hl) (h.ixChecks ix l hix hl) i
      constructor
      · intro hx
        have h1 := (relabel_rows ix.name _ i).mp (by simpa using hx)
        exact ⟨ix, rfl, l, rfl, hf.mp h1⟩
      · rintro ⟨ix', hix', l', hl', hbad⟩
        cases hix'; cases hl'
        have h1 := (relabel_rows ix.name _ i).mpr (hf.mpr hbad)
        simpa using h1
  rw [hJ, hC, hI]
  constructor
  · rintro (h1 | h1 | h1)
    · exact Or.inr (Or.inl h1)
    · exact Or.inl h1
    · exact Or.inr (Or.inr h1)
  · rintro (h1 | h1 | h1)
    · exact Or.inr (Or.inl h1)
    · exact Or.inl h1
    · exact Or.inr (Or.inr h1)

/-- **C11 (result)** with `drop_invalid_rows`, when every collected error is attributable to rows the
call returns the parsed frame without exactly the rows the errors name -/
theorem drop_returns_unnamed_rows (T : ScopeTable) (d : Depth) (S : Schema) (D P : Frame) (pe : List Err)
    (hparse : parseFrame S D = .ok P pe) (hdrop : S.dropInvalid = true)
    (hes : (pe ++ strictOrderedErrors S D ++ coreCheckErrors T d S P) ≠ [])
    (hrows : ∀ e ∈ pe ++ strictOrderedErrors S D ++ coreCheckErrors T d S P, e.cells ≠ []) :
    validateLazy T d S D
      = .ok (dropRows P (failingRows (pe ++ strictOrderedErrors S D ++ coreCheckErrors T d S P))) := by
  unfold validateLazy
  rw [hparse]
  simp only
  have h1 : (pe ++ strictOrderedErrors S D ++ coreCheckErrors T d S P).isEmpty = false := by
    cases hl : pe ++ strictOrderedErrors S D ++ coreCheckErrors T d S P with
    | nil => exact absurd hl hes
    | cons _ _ => rfl
  have h2 : (pe ++ strictOrderedErrors S D ++ coreCheckErrors T d S P).any (fun e => e.cells.isEmpty) = false := by
    rw [List.any_eq_false]
    intro e he
    cases hc : e.cells with
    | nil => exact absurd hc (hrows e he)
    | cons _ _ => simp
  simp only [h1, h2, hdrop, Bool.false_eq_true, ↓reduceIte]

/-- **C11 (still raised)** a violation that is not attributable to rows (a missing column, a wrong
dtype, a failing whole-column check …) is raised even with `drop_invalid_rows` -/
theorem non_row_errors_still_raised (T : ScopeTable) (d : Depth) (S : Schema) (D P : Frame) (pe : List Err)
    (hparse : parseFrame S D = .ok P pe) (hdrop : S.dropInvalid = true)
    (e : Err) (he : e ∈ pe ++ strictOrderedErrors S D ++ coreCheckErrors T d S P) (hcells : e.cells = []) :
    validateLazy T d S D = .errors (pe ++ strictOrderedErrors S D ++ coreCheckErrors T d S P) := by
  unfold validateLazy
  rw [hparse]
  simp only
  have h1 : (pe ++ strictOrderedErrors S D ++ coreCheckErrors T d S P).isEmpty = false := by
    cases hl : pe ++ strictOrderedErrors S D ++ coreCheckErrors T d S P with
    | nil => rw [hl] at he; cases he
    | cons _ _ => rfl
  have h2 : (pe ++ strictOrderedErrors S D ++ coreCheckErrors T d S P).any (fun e => e.cells.isEmpty) = true := by
    rw [List.any_eq_true]
    exact ⟨e, he, by simp [hcells]⟩
  simp only [h1, h2, hdrop, Bool.false_eq_true, ↓reduceIte]

/-- **C11 (exact rows)** a schema whose schema-level part conforms: the row at position `i` of the
parsed frame survives the core checks' errors exactly when it violates no row-level constraint -/
theorem survivors_are_the_valid_rows (T : ScopeTable) (S : Schema) (P : Frame)
    (h : RowLevelOnly S P) (i : Nat) :
    i ∈ keptPositions P.nrows (failingRows (coreCheckErrors T .schemaAndData S P))
      ↔ i < P.nrows ∧ ¬ frameRowBad S P i := by
  rw [kept_iff_not_named]
  rw [← frame_rows_named T S P h i]
  constructor
  · rintro ⟨h1, h2⟩
    refine ⟨h1, ?_⟩
    rintro ⟨e, he, c, hc, hp⟩
    exact h2 e he c hc hp
  · rintro ⟨h1, h2⟩
    exact ⟨h1, fun e he c hc hp => h2 ⟨e, he, c, hc, hp⟩⟩

/-- **C11, end to end** for a schema whose schema-level part conforms, without parsing errors: when the
core checks find violations and all of them are attributable to rows, `validate(lazy=True)` with
`drop_invalid_rows` returns the parsed frame restricted — in the original order — to exactly the rows
that violate no row-level constraint of a column, of the joint uniqueness declaration or of the index -/
theorem drop_invalid_rows_exact (T : ScopeTable) (S : Schema) (D P : Frame)
    (hparse : parseFrame S D = .ok P []) (hso : strictOrderedErrors S D = []) (hdrop : S.dropInvalid = true)
    (h : RowLevelOnly S P)
    (hne : coreCheckErrors T .schemaAndData S P ≠ [])
    (hrows : ∀ e ∈ coreCheckErrors T .schemaAndData S P, e.cells ≠ []) :
    validateLazy T .schemaAndData S D
        = .ok (dropRows P (failingRows (coreCheckErrors T .schemaAndData S P)))
      ∧ ∀ i, i ∈ keptPositions P.nrows (failingRows (coreCheckErrors T .schemaAndData S P))
          ↔ i < P.nrows ∧ ¬ frameRowBad S P i := by
  refine ⟨?_, survivors_are_the_valid_rows T S P h⟩
  have := drop_returns_unnamed_rows T .schemaAndData S D P [] hparse hdrop
    (by simpa [hso] using hne) (by simpa [hso] using hrows)
  simpa [hso] using this

/-- the hypotheses of the frame theorems are satisfiable by a frame with violations of every kind -/
example : RowLevelOnly
    { columns := [{ name := some "a", dtype := some .float64, unique := true, checks := [{ b := .gt (.flt 0) }] }],
      index := some { dtype := some .int64 }, unique := ["a"] }
    { cols := [⟨"a", .float64, [.flt 4, .null, .flt 4, .flt (-4), .flt 8]⟩],
      index := [⟨none, .int64, [.int 0, .int 1, .int 2, .int 3, .int 4]⟩], nrows := 5 } := by
  refine ⟨?_, ?_, ?_, ?_, ?_, ?_⟩
  · intro spec hs; simp at hs; subst hs; rfl
  · intro spec hs n c hn hc t ht
    simp at hs; subst hs
    simp at hn; subst hn
    simp [Frame.col?] at hc; subst hc
    simp at ht; subst ht; decide
  · intro spec hs n c hn hc ck hck
    simp at hs; subst hs
    simp at hn; subst hn
    simp [Frame.col?] at hc; subst hc
    simp at hck; subst hck; decide
  · intro ix hix; simp at hix; subst hix; exact ⟨_, rfl, Or.inl rfl⟩
  · intro ix l hix hl t ht
    simp at hix; subst hix
    simp at hl; subst hl
    simp at ht; subst ht; decide
  · intro ix l hix hl ck hck
    simp at hix; subst hix
    simp at hck

/-- non-vacuity and an end-to-end instance: nulls, a duplicate and a failing check in one column -/
example :
    validateLazy ⟨none, none, none, none, none, none, none, none, none, none⟩ .schemaAndData
      { columns := [{ name := some "a", dtype := some .float64, unique := true,
                      checks := [{ b := .gt (.flt 0) }] }], dropInvalid := true }
      { cols := [⟨"a", .float64, [.flt 4, .null, .flt 4, .flt (-4), .flt 8]⟩],
        index := [⟨none, .int64, [.int 0, .int 1, .int 2, .int 3, .int 4]⟩], nrows := 5 }
    = .ok { cols := [⟨"a", .float64, [.flt 4, .flt 8]⟩], index := [⟨none, .int64, [.int 0, .int 4]⟩], nrows := 2 } := by
  decide

end C11
end Pandera

import PanderaModel.Parse
import PanderaModel.Lemmas.Cells
import PanderaModel.Lemmas.Basic
/-!
# C11 — drop_invalid_rows removes exactly the rows that violate a row-level constraint
-/
namespace Pandera
namespace C11

/-- the positions `drop_invalid_rows` keeps -/
def keptPositions (n : Nat) (bad : List Nat) : List Nat := (List.range n).filter (fun i => !bad.contains i)

theorem dropRows_nrows (D : Frame) (bad : List Nat) : (dropRows D bad).nrows = (keptPositions D.nrows bad).length := rfl

/-- **C11 (a)** the surviving rows are the input rows at the kept positions, in their original order,
with their (parsed) values unchanged -/
theorem dropRows_cols (D : Frame) (bad : List Nat) :
    (dropRows D bad).cols = D.cols.map (fun c =>
      { c with vals := (keptPositions D.nrows bad).map (fun i => c.vals.getD i .null) }) := rfl

theorem keptPositions_sorted (n : Nat) (bad : List Nat) :
    (keptPositions n bad).Pairwise (· < ·) := by
  unfold keptPositions
  exact List.Pairwise.filter _ (List.pairwise_lt_range)

/-- **C11 (b)** a row survives exactly when no collected error names it -/
theorem kept_iff_not_named (n : Nat) (es : List Err) (i : Nat) :
    i ∈ keptPositions n (failingRows es) ↔ i < n ∧ ∀ e ∈ es, ∀ c ∈ e.cells, c.pos ≠ i := by
  unfold keptPositions failingRows
  simp only [List.mem_filter, List.mem_range, Bool.not_eq_eq_eq_not, Bool.not_true,
    List.contains_eq_mem, decide_eq_false_iff_not, List.mem_flatten, List.mem_map, not_exists, not_and]
  constructor
  · rintro ⟨h1, h2⟩
    refine ⟨h1, fun e he c hc hp => ?_⟩
    exact h2 _ ⟨e, he, rfl⟩ (List.mem_map.mpr ⟨c, hc, hp⟩)
  · rintro ⟨h1, h2⟩
    refine ⟨h1, ?_⟩
    rintro l ⟨e, he, rfl⟩ hi
    obtain ⟨c, hc, hp⟩ := List.mem_map.mp hi
    exact h2 e he c hc hp

/-! ### which rows a field's errors name (every check function; full depth) -/

/-- row `i` of a field violates a row-level constraint of its declaration, as reported:
nullability, uniqueness under the `report_duplicates` setting, or a check -/
def fieldRowBad (spec : ColSpec) (vals : List Val) (i : Nat) : Prop :=
  (spec.nullable = false ∧ ∃ v, vals[i]? = some v ∧ v.isNull = true)
  ∨ (spec.unique = true ∧ (dupMask spec.reportDup vals)[i]? = some true)
  ∨ (∃ ck ∈ spec.checks, ∃ v, vals[i]? = some v ∧ (ck.ignoreNa && v.isNull) = false ∧ docPred ck.b v = some false)

theorem mem_cells_checkStep (ctx : Ctx) (label : Option String) (vals : List Val) (ix : Nat) (c : CheckSpec)
    (hok : runCheck c vals ≠ .raised) (i : Nat) :
    (∃ e ∈ checkStep ctx label vals ix c, ∃ cell ∈ e.cells, cell.pos = i) ↔
      ∃ v, vals[i]? = some v ∧ (c.ignoreNa && v.isNull) = false ∧ docPred c.b v = some false := by
  unfold checkStep
  cases hr : runCheck c vals with
  | raised => exact absurd hr hok
  | fails ps =>
    have hmem := runCheckFn_fails_mem (docPred c.b) c.ignoreNa vals ps hr i
    cases ps with
    | nil =>
      simp only [List.not_mem_nil, false_and, exists_false, false_iff]
      intro h; exact absurd (hmem.mpr h) (by simp)
    | cons p ps' =>
      simp only [List.mem_singleton, exists_eq_left]
      rw [← hmem]
      by_cases hign : c.ignoreNa = true
      · simp only [hign, ↓reduceIte]
        constructor
        · rintro ⟨cell, hc, rfl⟩
          unfold dropNullCells at hc
          exact ((mem_cellsAt_iff _ _ _ _).mp (List.mem_filter.mp hc).1).2.1
        · intro hi
          -- the value at a failing position is non-null under ignore_na
          obtain ⟨v, hv, hk, _⟩ := hmem.mp hi
          refine ⟨⟨label, i, v⟩, ?_, rfl⟩
          unfold dropNullCells
          rw [List.mem_filter, mem_cellsAt_iff]
          refine ⟨⟨rfl, hi, by simp [List.getD_eq_getElem?_getD, hv]⟩, ?_⟩
          simp only [hign, Bool.true_and] at hk
          simp [hk]
      · simp only [hign, Bool.false_eq_true, ↓reduceIte]
        constructor
        · rintro ⟨cell, hc, rfl⟩
          exact ((mem_cellsAt_iff _ _ _ _).mp hc).2.1
        · intro hi
          exact ⟨⟨label, i, vals.getD i .null⟩, (mem_cellsAt_iff _ _ _ _).mpr ⟨rfl, hi, rfl⟩, rfl⟩


/-- **C11 (c)** the rows named by a field's errors are exactly the rows violating one of its
row-level constraints — for a field whose name and dtype conform and whose checks evaluate -/
theorem field_rows_named (T : ScopeTable) (ctx : Ctx) (spec : ColSpec) (fn : Option String)
    (phys : DType) (vals : List Val)
    (hname : spec.name = none ∨ spec.name = fn)
    (hdt : ∀ t, spec.dtype = some t → dtypeOkImpl t phys vals = true)
    (hchecks : ∀ c ∈ spec.checks, runCheck c vals ≠ .raised) (i : Nat) :
    (∃ e ∈ fieldErrors T .schemaAndData ctx spec fn phys vals, ∃ cell ∈ e.cells, cell.pos = i)
      ↔ fieldRowBad spec vals i := by
  unfold fieldErrors fieldRowBad
  have hn : (spec.name.isNone || spec.name == fn) = true := by
    rcases hname with h | h <;> simp [h]
  have hd : ∀ t, spec.dtype = some t → (!dtypeOkImpl t phys vals) = false := by
    intro t h; simp [hdt t h]
  simp only [optRuns_sad, Bool.true_and, hn, Bool.not_true, Bool.false_eq_true, ↓reduceIte, List.nil_append]
  have hd' : dtypeErrs true ctx fn spec.dtype phys vals = [] := by
    unfold dtypeErrs
    cases hdd : spec.dtype with
    | none => rfl
    | some t => simp [hd t hdd]
  rw [hd']
  simp only [List.append_nil, List.mem_append, or_and_right, exists_or, or_assoc]
  refine or_congr ?_ (or_congr ?_ ?_)
  · -- nullability
    by_cases hnl : spec.nullable = true
    · simp [hnl]
    · have hnl' : spec.nullable = false := by simpa using hnl
      simp only [hnl', Bool.not_false, Bool.true_and, true_and]
      constructor
      · rintro ⟨e, he, cell, hc, rfl⟩
        split at he
        · simp only [List.mem_singleton] at he
          subst he
          obtain ⟨_, hp, _⟩ := (mem_cellsAt_iff _ _ _ _).mp hc
          rw [mem_truePositions_iff, List.getElem?_map] at hp
          cases hv : vals[cell.pos]? with
          | none => simp [hv] at hp
          | some v => exact ⟨v, rfl, by simpa [hv] using hp⟩
        · simp at he
      · rintro ⟨v, hv, hnull⟩
        have hpos : i ∈ truePositions (vals.map Val.isNull) := by
          rw [mem_truePositions_iff, List.getElem?_map, hv]; simp [hnull]
        have hne : (truePositions (vals.map Val.isNull)).isEmpty = false := by
          cases hl : truePositions (vals.map Val.isNull) with
          | nil => rw [hl] at hpos; simp at hpos
          | cons a l => rfl
        refine ⟨_, by simp only [hne, Bool.not_false, ↓reduceIte, List.mem_singleton]; rfl,
          ⟨fn, i, vals.getD i .null⟩, (mem_cellsAt_iff _ _ _ _).mpr ⟨rfl, hpos, rfl⟩, rfl⟩
  · -- uniqueness
    by_cases hu : spec.unique = true
    · simp only [hu, Bool.true_and, true_and]
      constructor
      · rintro ⟨e, he, cell, hc, rfl⟩
        split at he
        · simp only [List.mem_singleton] at he
          subst he
          exact (mem_truePositions_iff _ _).mp ((mem_cellsAt_iff _ _ _ _).mp hc).2.1
        · simp at he
      · intro hm
        have hpos := (mem_truePositions_iff _ _).mpr hm
        have hne : (truePositions (dupMask spec.reportDup vals)).isEmpty = false := by
          cases hl : truePositions (dupMask spec.reportDup vals) with
          | nil => rw [hl] at hpos; simp at hpos
          | cons a l => rfl
        refine ⟨_, by simp only [hne, Bool.not_false, ↓reduceIte, List.mem_singleton]; rfl,
          ⟨fn, i, vals.getD i .null⟩, (mem_cellsAt_iff _ _ _ _).mpr ⟨rfl, hpos, rfl⟩, rfl⟩
    · simp [hu]
  · -- checks
    unfold checksSteps
    simp only [List.mem_flatten, List.mem_map]
    constructor
    · rintro ⟨e, ⟨l, ⟨p, hp, rfl⟩, he⟩, cell, hc, hpos⟩
      have hck : p.1 ∈ spec.checks := zipIdx_mem_fst hp
      exact ⟨p.1, hck, (mem_cells_checkStep ctx fn vals p.2 p.1 (hchecks p.1 hck) i).mp ⟨e, he, cell, hc, hpos⟩⟩
    · rintro ⟨ck, hck, hv⟩
      obtain ⟨k, hk⟩ := mem_zipIdx_of_mem hck
      obtain ⟨e, he, cell, hc, hpos⟩ := (mem_cells_checkStep ctx fn vals k ck (hchecks ck hck) i).mpr hv
      exact ⟨e, ⟨_, ⟨(ck, k), hk, rfl⟩, he⟩, cell, hc, hpos⟩

/-- non-vacuity and an end-to-end instance: nulls, a duplicate and a failing check in one column -/
example :
    validateLazy ⟨none, none, none, none, none, none, none, none, none, none⟩ .schemaAndData
      { columns := [{ name := some "a", dtype := some .float64, unique := true,
                      checks := [{ b := .gt (.flt 0) }] }], dropInvalid := true }
      { cols := [⟨"a", .float64, [.flt 4, .null, .flt 4, .flt (-4), .flt 8]⟩],
        index := [⟨none, .int64, [.int 0, .int 1, .int 2, .int 3, .int 4]⟩], nrows := 5 }
    = .ok { cols := [⟨"a", .float64, [.flt 4, .flt 8]⟩], index := [⟨none, .int64, [.int 0, .int 4]⟩], nrows := 2 } := by
  decide

end C11
end Pandera

import PanderaModel.Strategies
import PanderaModel.Generated.StrategyRules
import PanderaModel.Spec
import PanderaModel.Lemmas.Frame
/-!
# C13 — every synthesised example satisfies the schema that produced it

`chain_sound`: for **any** family of checks, if every check strategy filters the strategy it is
chained onto and starts from values of the dtype that satisfy its own check, then every value in the
support of the chained strategy has the dtype and satisfies *all* the checks — by induction over the
chain, any length.  `replace_witness`: a single replacing strategy breaks it (`[gt(5), eq(3)]`
yields 3, the recorded defect).  `column_sound`: a drawn column satisfies the component declaration
under the declarative semantics of C01.  `unsat_reports`: an empty support has no draw.

The per-run obligation reads off the source which built-in strategies filter (all of them must) and
that the string strategies escape their literal / accept a missing bound.
-/
namespace Pandera.Strat
open Pandera.Generated.StrategyRules

/-! ## per-run obligations -/

/-- every built-in check strategy filters the strategy preceding it; checks without a strategy filter
by the check function; the chain passes the preceding strategy on; `str_length` accepts a missing
bound.  (`str_startswith` / `str_endswith` build a regular expression from the raw literal — the
recorded region `K_C13_literalAsRegex`: their *base* strategy is sound only for literals without
regex metacharacters, which is the hypothesis `hbase` of `chain_sound`; an existing test pins that
behaviour, so it is recorded rather than repaired.) -/
theorem strategy_rules_ok :
    (chainedModes.all (fun p => p.2 == "filter") && chainedModes.length == 14
     && strLengthHandlesNone && undefinedChecksFilter && chainPassesPrevious) = true := by decide

/-! ## soundness of a chain -/

theorem chain_some {χ : Type} (mode : χ → Mode) (base : χ → Support) (holds : χ → Support)
    (cs : List χ) (acc : Support) : ∃ s, chain mode base holds cs (some acc) = some s := by
  induction cs generalizing acc with
  | nil => exact ⟨acc, rfl⟩
  | cons c cs ih => exact ih _

/-- the invariant carried along the chain -/
theorem chain_inv {χ : Type} (mode : χ → Mode) (dtype : Support) (base : χ → Support) (holds : χ → Support)
    (hmode : ∀ c, mode c = .filter)
    (hbase : ∀ c v, base c v = true → dtype v = true ∧ holds c v = true)
    (cs : List χ) (acc : Support) (P : Val → Prop)
    (hacc : ∀ v, acc v = true → dtype v = true ∧ P v)
    (s : Support) (hs : chain mode base holds cs (some acc) = some s) :
    ∀ v, s v = true → dtype v = true ∧ P v ∧ ∀ c ∈ cs, holds c v = true := by
  induction cs generalizing acc P with
  | nil =>
    intro v hv
    cases hs
    exact ⟨(hacc v hv).1, (hacc v hv).2, fun c hc => by cases hc⟩
  | cons c cs ih =>
    intro v hv
    have hstep : ∀ w, step mode base holds (some acc) c w = true → dtype w = true ∧ (P w ∧ holds c w = true) := by
      intro w hw
      simp only [step, hmode c, Bool.and_eq_true] at hw
      exact ⟨(hacc w hw.1).1, (hacc w hw.1).2, hw.2⟩
    have := ih (step mode base holds (some acc) c) (fun w => P w ∧ holds c w = true) hstep hs v hv
    refine ⟨this.1, this.2.1.1, ?_⟩
    intro c' hc'
    rcases List.mem_cons.mp hc' with rfl | h
    · exact this.2.1.2
    · exact this.2.2 c' h

/-- **every value a chained strategy can produce has the dtype and satisfies all the checks** -/
theorem chain_sound {χ : Type} (mode : χ → Mode) (dtype : Support) (base : χ → Support) (holds : χ → Support)
    (hmode : ∀ c, mode c = .filter)
    (hbase : ∀ c v, base c v = true → dtype v = true ∧ holds c v = true)
    (checks : List χ) (v : Val) (hv : fieldSupport mode dtype base holds checks v = true) :
    dtype v = true ∧ ∀ c ∈ checks, holds c v = true := by
  unfold fieldSupport at hv
  cases checks with
  | nil => exact ⟨by simpa [chain] using hv, fun c hc => by cases hc⟩
  | cons c cs =>
    simp only [chain] at hv
    obtain ⟨s, hs⟩ := chain_some mode base holds cs (step mode base holds none c)
    rw [hs] at hv
    have := chain_inv mode dtype base holds hmode hbase cs (step mode base holds none c) (fun w => holds c w = true)
      (fun w hw => hbase c w (by simpa [step] using hw)) s hs v (by simpa using hv)
    refine ⟨this.1, ?_⟩
    intro c' hc'
    rcases List.mem_cons.mp hc' with rfl | h
    · exact this.2.1
    · exact this.2.2 c' h

/-- the recorded defect: a strategy that replaces the preceding one makes the chain unsound —
`[gt 5, eq 3]` can produce 3 -/
theorem replace_witness :
    let holds : Builtin → Support := fun b v => docPred b v == some true
    let dtype : Support := fun v => v.kind? == some .int64
    let base : Builtin → Support := fun b v => dtype v && holds b v
    let mode : Builtin → Mode := fun b => match b with | .eq _ => .replace | _ => .filter
    fieldSupport mode dtype base holds [.gt (.int 5), .eq (.int 3)] (.int 3) = true
    ∧ holds (.gt (.int 5)) (.int 3) = false
    ∧ fieldSupport (fun _ => .filter) dtype base holds [.gt (.int 5), .eq (.int 3)] (.int 3) = false := by
  decide

/-- when no value satisfies dtype and checks the support is empty: nothing can be drawn -/
theorem unsat_reports {χ : Type} (mode : χ → Mode) (dtype : Support) (base : χ → Support) (holds : χ → Support)
    (hmode : ∀ c, mode c = .filter)
    (hbase : ∀ c v, base c v = true → dtype v = true ∧ holds c v = true)
    (checks : List χ) (hunsat : ∀ v, ¬ (dtype v = true ∧ ∀ c ∈ checks, holds c v = true)) :
    ∀ v, fieldSupport mode dtype base holds checks v = false := by
  intro v
  cases h : fieldSupport mode dtype base holds checks v with
  | false => rfl
  | true => exact absurd (chain_sound mode dtype base holds hmode hbase checks v h) (hunsat v)

/-! ## a drawn column satisfies its declaration -/

/-- **a column assembled from the field support (nulls only when nullable, distinct when unique)
satisfies the component declaration** of C01's declarative semantics -/
theorem column_sound (spec : ColSpec) (name : Option String) (t : DType) (vals : List Val)
    (hname : spec.name = none ∨ spec.name = name) (hdtype : spec.dtype = some t ∨ spec.dtype = none)
    (elem : Support)
    (helem : ∀ v, elem v = true → ∀ c ∈ spec.checks, docPred c.b v = some true)
    (hna : ∀ c ∈ spec.checks, c.ignoreNa = true)
    (hcol : columnInSupport elem spec.nullable spec.unique vals) :
    Spec.fieldOk spec name t vals := by
  obtain ⟨hvals, huniq⟩ := hcol
  refine ⟨hname, ?_, huniq, ?_, ?_⟩
  · cases hn : spec.nullable with
    | true => exact Or.inl rfl
    | false =>
      right
      intro v hv
      rcases hvals v hv with ⟨_, h2⟩ | ⟨h1, _⟩
      · rw [hn] at h2; cases h2
      · exact h1
  · intro t' ht'
    rcases hdtype with h | h
    · rw [h] at ht'; cases ht'; simp [Spec.dtypeOk]
    · rw [h] at ht'; cases ht'
  · intro c hc v hv
    unfold Spec.valOk
    rcases hvals v hv with ⟨h1, _⟩ | ⟨_, h2⟩
    · simp [hna c hc, h1]
    · simp [helem v h2 c hc]

/-! ## a drawn frame satisfies its schema -/

theorem eraseDups_of_nodup (l : List String) (h : l.Nodup) : l.eraseDups = l := by
  induction l with
  | nil => rfl
  | cons a as ih =>
    rw [List.nodup_cons] at h
    rw [List.eraseDups_cons]
    have hf : as.filter (fun b => !b == a) = as := by
      rw [List.filter_eq_self]
      intro b hb
      have : b ≠ a := fun hba => h.1 (hba ▸ hb)
      simp [this]
    rw [hf, ih h.2]

/-- the labels a schema of plainly named columns declares, when every one of them is a column of the frame -/
theorem flatten_matched (cols : List ColSpec) (D : Frame)
    (hplain : ∀ spec ∈ cols, spec.regex = none ∧ ∃ n, spec.name = some n)
    (hin : ∀ spec ∈ cols, ∀ n, spec.name = some n → D.hasCol n = true) :
    (cols.map (fun c => Spec.matched c D)).flatten = cols.filterMap (·.name) := by
  induction cols with
  | nil => rfl
  | cons c cs ih =>
    obtain ⟨hr, n, hn⟩ := hplain c (by simp)
    have hc : Spec.matched c D = [n] := by
      unfold Spec.matched
      simp [hr, hn, hin c (by simp) n hn]
    simp only [List.map_cons, List.flatten_cons, hc, List.filterMap_cons, hn]
    rw [ih (fun s hs => hplain s (by simp [hs])) (fun s hs => hin s (by simp [hs]))]
    rfl

/-- **a frame assembled the way `dataframe_strategy` assembles it — exactly the declared columns, in
schema order, each one drawn from its component's support (`column_sound`), the joint uniqueness and
the index drawn to hold — satisfies the schema** (`Sat`, hence is accepted: C01 `accepts_iff_Sat`),
whatever `strict` and `ordered` say -/
theorem frame_sound (S : Schema) (D : Frame)
    (hplain : ∀ spec ∈ S.columns, spec.regex = none ∧ ∃ n, spec.name = some n)
    (hnames : D.names = S.columns.filterMap (·.name))
    (hnd : D.names.Nodup)
    (hcols : ∀ spec ∈ S.columns, ∀ n c, spec.name = some n → D.col? n = some c →
      Spec.fieldOk spec (some n) c.dtype c.vals)
    (hjoint : S.unique ≠ [] → (S.unique.filter D.hasCol).filterMap D.col? ≠ [] → Spec.rowsDistinct
      (rowsOf D.nrows (((S.unique.filter D.hasCol).filterMap D.col?).map (·.vals))))
    (hix : ∀ ix, S.index = some ix → Spec.indexSat ix D) :
    Spec.Sat S D := by
  have hin : ∀ spec ∈ S.columns, ∀ n, spec.name = some n → D.hasCol n = true := by
    intro spec hs n hn
    unfold Frame.hasCol
    rw [hnames, List.contains_iff_mem, List.mem_filterMap]
    exact ⟨spec, hs, hn⟩
  have hdecl : Spec.declared S D = D.names := by
    unfold Spec.declared
    rw [flatten_matched S.columns D hplain hin, ← hnames]
    exact eraseDups_of_nodup _ hnd
  refine ⟨?_, ?_, ?_, hjoint, hix⟩
  · intro spec hs
    obtain ⟨hr, n, hn⟩ := hplain spec hs
    unfold Spec.columnSat
    simp only [hr, hn]
    exact ⟨fun _ => hin spec hs n hn, fun c hc => hcols spec hs n c hn hc⟩
  · intro _ n hn
    rw [hdecl, List.contains_iff_mem]; exact hn
  · intro _
    unfold Spec.inOrder
    rw [hdecl, List.filter_eq_self]
    intro n hn
    rw [List.contains_iff_mem]; exact hn

/-- the premises are satisfiable: a two-column frame drawn for a strict, ordered schema -/
example : Spec.Sat
    { columns := [{ name := some "a", dtype := some .int64, checks := [{ b := .gt (.int 0) }] },
                  { name := some "b", dtype := some .str, nullable := true }], strict := .yes, ordered := true }
    { cols := [⟨"a", .int64, [.int 1, .int 2]⟩, ⟨"b", .str, [.str "x", .null]⟩],
      index := [⟨none, .int64, [.int 0, .int 1]⟩], nrows := 2 } := by decide

/-! ## non-vacuity -/

example : fieldSupport (fun (_ : Builtin) => Mode.filter) (fun v => v.kind? == some .int64)
    (fun b v => v.kind? == some .int64 && docPred b v == some true) (fun b v => docPred b v == some true)
    [.gt (.int 5), .le (.int 9)] (.int 7) = true := by decide

end Pandera.Strat

import PanderaModel.Errors
import PanderaModel.Lemmas.Cells
import PanderaModel.Lemmas.Field
import PanderaModel.Props.C11
/-!
# C02 — lazy and eager validation agree; the error report is exact
-/
namespace Pandera
namespace C02

/-- the core checks of `DataFrameSchema.validate` as a list of checks on the frame -/
def frameChecks (T : ScopeTable) (d : Depth) (S : Schema) : List (Frame → List Err) :=
  [strictOrderedErrors S, presenceErrors T d S, jointUniqueErrors T d S]
  ++ S.columns.map (fun c => columnErrors T d c)
  ++ [fun D => indexPartErrors T d S D]

def frameSteps (T : ScopeTable) (d : Depth) (S : Schema) : List (Step Frame Err) :=
  (frameChecks T d S).map checkStepOf

/-- the model's lazy error list is the collect-handler run of the step list -/
theorem lazy_run_eq_frameErrors (T : ScopeTable) (d : Depth) (S : Schema) (D : Frame) :
    runLazy (frameSteps T d S) D = (D, frameErrors T d S D) := by
  unfold frameSteps
  rw [runLazy_checks]
  simp [frameChecks, frameErrors, coreCheckErrors, List.flatten_append, Function.comp_def]

/-- **C02 (a)** lazy validation raises exactly when eager validation raises — for every
scope table, depth, schema and frame -/
theorem lazy_raises_iff_eager_raises (T : ScopeTable) (d : Depth) (S : Schema) (D : Frame) :
    (∃ e, runEager (frameSteps T d S) D = .error e) ↔ frameErrors T d S D ≠ [] := by
  have h := eager_ok_iff_lazy_no_errors (frameSteps T d S) D
  rw [lazy_run_eq_frameErrors] at h
  simp only at h
  rw [ne_eq, ← h]
  cases hr : runEager (frameSteps T d S) D <;> simp

/-- **C02 (b)** the eager error is the first error the lazy run collects -/
theorem eager_error_is_first_lazy_error (T : ScopeTable) (d : Depth) (S : Schema) (D : Frame) (e : Err)
    (h : runEager (frameSteps T d S) D = .error e) : (frameErrors T d S D).head? = some e := by
  have := eager_error_is_head_of_lazy (frameSteps T d S) D e h
  rwa [lazy_run_eq_frameErrors] at this

theorem eager_error_mem_lazy_errors (T : ScopeTable) (d : Depth) (S : Schema) (D : Frame) (e : Err)
    (h : runEager (frameSteps T d S) D = .error e) : e ∈ frameErrors T d S D :=
  List.mem_of_mem_head? (eager_error_is_first_lazy_error T d S D e h)

/-- with no parsing option the eager run returns its input -/
theorem eager_ok_returns_input (T : ScopeTable) (d : Depth) (S : Schema) (D D' : Frame)
    (h : runEager (frameSteps T d S) D = .ok D') : D' = D := by
  have := eager_ok_state_eq_lazy (frameSteps T d S) D D' h
  rw [lazy_run_eq_frameErrors] at this
  exact this.symm

/-! ### exactness of the reported failure cases (field level, every check function) -/

/-- nullability: the reported cells are exactly the null positions -/
theorem null_cells_exact (T : ScopeTable) (ctx : Ctx) (spec : ColSpec) (fn : Option String)
    (phys : DType) (vals : List Val) (c : Cell) :
    (∃ e ∈ fieldErrors T .schemaAndData ctx spec fn phys vals,
        e.reason = .seriesContainsNulls ∧ c ∈ e.cells) ↔
      (spec.nullable = false ∧ c.col = fn ∧ vals[c.pos]? = some c.val ∧ c.val.isNull = true) := by
  unfold fieldErrors
  simp only [optRuns_sad, Bool.true_and, List.mem_append, or_and_right, exists_or]
  have hchk : ¬ ∃ e ∈ checksSteps ctx fn vals spec.checks, e.reason = .seriesContainsNulls ∧ c ∈ e.cells := by
    rintro ⟨e, he, hr, _⟩
    unfold checksSteps at he
    simp only [List.mem_flatten, List.mem_map] at he
    obtain ⟨l, ⟨p, _, rfl⟩, he⟩ := he
    unfold checkStep at he
    split at he <;> simp at he <;> simp [he] at hr
  constructor
  · rintro (((( ⟨e, he, hr, hc⟩ | ⟨e, he, hr, hc⟩) | ⟨e, he, hr, hc⟩) | ⟨e, he, hr, hc⟩) | h)
    · split at he <;> simp at he; simp [he] at hr
    · split at he
      · rename_i hcond
        simp only [List.mem_singleton] at he
        subst he
        simp only [mem_cellsAt_iff, mem_truePositions_iff] at hc
        obtain ⟨h1, h2, h3⟩ := hc
        simp only [Bool.and_eq_true, Bool.not_eq_eq_eq_not, Bool.not_true] at hcond
        refine ⟨hcond.1, h1, ?_, ?_⟩
        · rw [List.getElem?_map] at h2
          cases hv : vals[c.pos]? with
          | none => simp [hv] at h2
          | some v => simp [h3, List.getD_eq_getElem?_getD, hv]
        · rw [List.getElem?_map] at h2
          cases hv : vals[c.pos]? with
          | none => simp [hv] at h2
          | some v =>
            simp only [hv, Option.map_some, Option.some.injEq] at h2
            simp [h3, List.getD_eq_getElem?_getD, hv, h2]
      · simp at he
    · split at he <;> simp at he; simp [he] at hr
    · unfold dtypeErrs at he
      split at he
      · simp at he
      · split at he <;> simp at he; simp [he] at hr
    · exact absurd h hchk
  · rintro ⟨hn, hcol, hv, hnull⟩
    left; left; left; right
    have hpos : c.pos ∈ truePositions (vals.map Val.isNull) := by
      rw [mem_truePositions_iff, List.getElem?_map, hv]; simp [hnull]
    have hne : (truePositions (vals.map Val.isNull)).isEmpty = false := by
      cases hl : truePositions (vals.map Val.isNull) with
      | nil => rw [hl] at hpos; simp at hpos
      | cons a l => rfl
    refine ⟨_, by simp only [hn, hne, Bool.not_false, Bool.and_self, ↓reduceIte, List.mem_singleton]; rfl,
      rfl, ?_⟩
    simp only [mem_cellsAt_iff]
    exact ⟨hcol, hpos, by simp [List.getD_eq_getElem?_getD, hv]⟩

/-- a check's reported cells are exactly the elements shown to the function on which it
answers `false` — for **every** check function `f`, with nulls hidden iff `ignore_na` -/
theorem check_cells_exact (f : Val → Option Bool) (ign : Bool) (vals : List Val) (ps : List Nat)
    (h : runCheckFn f ign vals = .fails ps) (i : Nat) :
    i ∈ ps ↔ ∃ v, vals[i]? = some v ∧ (ign && v.isNull) = false ∧ f v = some false :=
  runCheckFn_fails_mem f ign vals ps h i

/-- error counts: one collected error per reported reason (the histogram of the lazy list) -/
def errorCounts (es : List Err) (r : Reason) : Nat := (es.filter (·.reason = r)).length

theorem error_counts_sum (es : List Err) (rs : List Reason) (hnd : rs.Nodup)
    (hall : ∀ e ∈ es, e.reason ∈ rs) : (rs.map (errorCounts es)).sum = es.length := by
  induction es with
  | nil =>
    clear hnd hall
    induction rs with
    | nil => rfl
    | cons r rs ih => simpa [errorCounts] using ih
  | cons e es ih =>
    have hm : e.reason ∈ rs := hall e (by simp)
    have ih' := ih (fun x hx => hall x (by simp [hx]))
    have key : ∀ (rs : List Reason), rs.Nodup → e.reason ∈ rs →
        (rs.map (errorCounts (e :: es))).sum = (rs.map (errorCounts es)).sum + 1 := by
      intro rs
      induction rs with
      | nil => simp
      | cons r rs ihr =>
        intro hnd hm
        rw [List.nodup_cons] at hnd
        simp only [List.map_cons, List.sum_cons]
        by_cases hr : e.reason = r
        · have hnot : e.reason ∉ rs := hr ▸ hnd.1
          have hrest : rs.map (errorCounts (e :: es)) = rs.map (errorCounts es) := by
            apply List.map_congr_left
            intro r' hr'
            have : e.reason ≠ r' := fun h => hnot (h ▸ hr')
            simp [errorCounts, this]
          rw [hrest]
          simp [errorCounts, hr]
          omega
        · have hm' : e.reason ∈ rs := by
            rcases List.mem_cons.mp hm with h | h
            · exact absurd h hr
            · exact h
          rw [ihr hnd.2 hm']
          simp [errorCounts, hr]
          omega
    rw [key rs hnd hm, ih']
    simp

/-! ### exactness of the report, whole frame -/

/-- every reported cell of a field is a cell of that field: its label and the value at its position -/
theorem field_cells_wellformed (T : ScopeTable) (d : Depth) (ctx : Ctx) (spec : ColSpec) (fn : Option String)
    (phys : DType) (vals : List Val) :
    ∀ e ∈ fieldErrors T d ctx spec fn phys vals, ∀ c ∈ e.cells, c.col = fn ∧ c.val = vals.getD c.pos .null := by
  intro e he c hc
  unfold fieldErrors at he
  simp only [List.mem_append] at he
  rcases he with (((he | he) | he) | he) | he
  · split at he
    · simp only [List.mem_singleton] at he; subst he; cases hc
    · cases he
  · split at he
    · simp only [List.mem_singleton] at he; subst he
      have := (mem_cellsAt_iff _ _ _ _).mp hc; exact ⟨this.1, this.2.2⟩
    · cases he
  · split at he
    · simp only [List.mem_singleton] at he; subst he
      have := (mem_cellsAt_iff _ _ _ _).mp hc; exact ⟨this.1, this.2.2⟩
    · cases he
  · unfold dtypeErrs at he
    split at he
    · cases he
    · split at he
      · simp only [List.mem_singleton] at he; subst he
        simp only at hc
        split at hc
        · have := (mem_cellsAt_iff _ _ _ _).mp hc; exact ⟨this.1, this.2.2⟩
        · cases hc
      · cases he
  · generalize optRuns (if ctx == Ctx.column then T.columnChecks else T.fieldChecks) d = b at he
    cases b
    · simp at he
    · simp only [↓reduceIte] at he
      unfold checksSteps at he
      simp only [List.mem_flatten, List.mem_map] at he
      obtain ⟨l, ⟨p, _, rfl⟩, he⟩ := he
      unfold checkStep at he
      split at he
      · simp only [List.mem_singleton] at he; subst he; cases hc
      · cases he
      · simp only [List.mem_singleton] at he; subst he
        split at hc
        · unfold dropNullCells at hc
          have := (mem_cellsAt_iff _ _ _ _).mp (List.mem_filter.mp hc).1; exact ⟨this.1, this.2.2⟩
        · have := (mem_cellsAt_iff _ _ _ _).mp hc; exact ⟨this.1, this.2.2⟩

/-- **C02 (report, field)** a cell is reported exactly when it is the cell of the field at a row that
violates a row-level constraint: every offending cell, no conforming cell -/
theorem field_cells_exact (T : ScopeTable) (ctx : Ctx) (spec : ColSpec) (fn : Option String)
    (phys : DType) (vals : List Val)
    (hname : spec.name = none ∨ spec.name = fn)
    (hdt : ∀ t, spec.dtype = some t → dtypeOkImpl t phys vals = true)
    (hchecks : ∀ c ∈ spec.checks, runCheck c vals ≠ .raised) (c : Cell) :
    (∃ e ∈ fieldErrors T .schemaAndData ctx spec fn phys vals, c ∈ e.cells)
      ↔ (c.col = fn ∧ c.val = vals.getD c.pos .null ∧ C11.fieldRowBad spec vals c.pos) := by
  constructor
  · rintro ⟨e, he, hc⟩
    have hw := field_cells_wellformed T _ ctx spec fn phys vals e he c hc
    exact ⟨hw.1, hw.2, (C11.field_rows_named T ctx spec fn phys vals hname hdt hchecks c.pos).mp ⟨e, he, c, hc, rfl⟩⟩
  · rintro ⟨hcol, hval, hbad⟩
    obtain ⟨e, he, cell, hcell, hpos⟩ :=
      (C11.field_rows_named T ctx spec fn phys vals hname hdt hchecks c.pos).mpr hbad
    have hw := field_cells_wellformed T _ ctx spec fn phys vals e he cell hcell
    have : cell = c := by
      cases cell; cases c
      simp only at hpos hw hcol hval
      simp only [Cell.mk.injEq]
      exact ⟨hw.1.trans hcol.symm, hpos, by rw [hw.2, hval, hpos]⟩
    exact ⟨e, he, this ▸ hcell⟩

/-- a reported cell belongs to the frame: a column of the frame under its label with the value at the
position, or the index under the name of the index component -/
def cellOfFrame (S : Schema) (P : Frame) (c : Cell) : Prop :=
  (∃ col ∈ P.cols, c.col = some col.name ∧ c.val = col.vals.getD c.pos .null)
  ∨ (∃ ix l, S.index = some ix ∧ P.index = [l] ∧ c.col = ix.name ∧ c.val = l.vals.getD c.pos .null)

theorem col?_some {P : Frame} {n : String} {col : Column} (h : P.col? n = some col) : col ∈ P.cols ∧ col.name = n := by
  unfold Frame.col? at h
  exact ⟨List.mem_of_find?_eq_some h, by simpa using List.find?_some h⟩

/-- **C02 (report, frame): no conforming cell.** Every cell the lazy run reports for the core checks
is a cell of the frame, and its row violates a row-level constraint of the schema -/
theorem frame_report_sound (T : ScopeTable) (S : Schema) (P : Frame) (h : C11.RowLevelOnly S P) (c : Cell) :
    (∃ e ∈ coreCheckErrors T .schemaAndData S P, c ∈ e.cells) → cellOfFrame S P c ∧ C11.frameRowBad S P c.pos := by
  rintro ⟨e, he, hc⟩
  refine ⟨?_, (C11.frame_rows_named T S P h c.pos).mp ⟨e, he, c, hc, rfl⟩⟩
  unfold coreCheckErrors at he
  simp only [List.mem_append] at he
  rcases he with ((he | he) | he) | he
  · rw [C11.presence_no_cells T _ S P e he] at hc; cases hc
  · -- joint uniqueness
    unfold jointUniqueErrors at he
    split at he
    · simp only at he
      split at he
      · cases he
      · split at he
        · cases he
        · simp only [List.mem_singleton] at he; subst he
          simp only [List.mem_flatten, List.mem_map] at hc
          obtain ⟨l, ⟨col, hcol, rfl⟩, hcell⟩ := hc
          have hm := (mem_cellsAt_iff _ _ _ _).mp hcell
          obtain ⟨n, _, hn⟩ := List.mem_filterMap.mp hcol
          exact Or.inl ⟨col, (col?_some hn).1, hm.1, hm.2.2⟩
    · cases he
  · -- columns
    simp only [List.mem_flatten, List.mem_map] at he
    obtain ⟨l, ⟨spec, hs, rfl⟩, he⟩ := he
    unfold columnErrors at he
    rw [h.noRegex spec hs] at he
    simp only at he
    cases hn : spec.name with
    | none => rw [hn] at he; cases he
    | some n =>
      rw [hn] at he
      simp only at he
      cases hcol : P.col? n with
      | none => rw [hcol] at he; cases he
      | some col =>
        rw [hcol] at he
        simp only at he
        have hw := field_cells_wellformed T _ .column spec (some n) col.dtype col.vals e he c hc
        have hc2 := col?_some hcol
        exact Or.inl ⟨col, hc2.1, by rw [hw.1, hc2.2], hw.2⟩
  · -- index
    unfold indexPartErrors at he
    cases hix : S.index with
    | none => rw [hix] at he; cases he
    | some ix =>
      rw [hix] at he
      obtain ⟨l, hl, _⟩ := h.oneLevel ix hix
      simp only at he
      unfold indexErrors at he
      rw [hl] at he
      simp only at he
      unfold relabel at he
      obtain ⟨e0, he0, rfl⟩ := List.mem_map.mp he
      simp only [List.mem_map] at hc
      obtain ⟨c0, hc0, rfl⟩ := hc
      have hw := field_cells_wellformed T _ .index ix l.name l.dtype l.vals e0 he0 c0 hc0
      exact Or.inr ⟨ix, l, hix, hl, rfl, hw.2⟩

/-- **C02 (report, frame): every offending row.** A row that violates a row-level constraint is named
by a reported cell of the frame -/
theorem frame_report_complete (T : ScopeTable) (S : Schema) (P : Frame) (h : C11.RowLevelOnly S P) (i : Nat)
    (hbad : C11.frameRowBad S P i) :
    ∃ e ∈ coreCheckErrors T .schemaAndData S P, ∃ c ∈ e.cells, c.pos = i ∧ cellOfFrame S P c := by
  obtain ⟨e, he, c, hc, hp⟩ := (C11.frame_rows_named T S P h i).mpr hbad
  exact ⟨e, he, c, hc, hp, (frame_report_sound T S P h c ⟨e, he, hc⟩).1⟩

end C02
end Pandera

import PanderaModel.Errors
import PanderaModel.Lemmas.Cells
import PanderaModel.Lemmas.Field
/-!
# C02 — lazy and eager validation agree; the error report is exact
-/
namespace Pandera
namespace C02

/-- the core checks of `DataFrameSchema.validate` as a list of checks on the frame -/
def frameChecks (T : ScopeTable) (d : Depth) (S : Schema) : List (Frame → List Err) :=
  [strictOrderedErrors S, presenceErrors T d S, jointUniqueErrors T d S]
  ++ S.columns.map (fun c => columnErrors T d c)
  ++ [fun D => indexPartErrors T d S D]

def frameSteps (T : ScopeTable) (d : Depth) (S : Schema) : List (Step Frame Err) :=
  (frameChecks T d S).map checkStepOf

/-- the model's lazy error list is the collect-handler run of the step list -/
theorem lazy_run_eq_frameErrors (T : ScopeTable) (d : Depth) (S : Schema) (D : Frame) :
    runLazy (frameSteps T d S) D = (D, frameErrors T d S D) := by
  unfold frameSteps
  rw [runLazy_checks]
  simp [frameChecks, frameErrors, coreCheckErrors, List.flatten_append, Function.comp_def]

/-- **C02 (a)** lazy validation raises exactly when eager validation raises — for every
scope table, depth, schema and frame -/
theorem lazy_raises_iff_eager_raises (T : ScopeTable) (d : Depth) (S : Schema) (D : Frame) :
    (∃ e, runEager (frameSteps T d S) D = .error e) ↔ frameErrors T d S D ≠ [] := by
  have h := eager_ok_iff_lazy_no_errors (frameSteps T d S) D
  rw [lazy_run_eq_frameErrors] at h
  simp only at h
  rw [ne_eq, ← h]
  cases hr : runEager (frameSteps T d S) D <;> simp

/-- **C02 (b)** the eager error is the first error the lazy run collects -/
theorem eager_error_is_first_lazy_error (T : ScopeTable) (d : Depth) (S : Schema) (D : Frame) (e : Err)
    (h : runEager (frameSteps T d S) D = .error e) : (frameErrors T d S D).head? = some e := by
  have := eager_error_is_head_of_lazy (frameSteps T d S) D e h
  rwa [lazy_run_eq_frameErrors] at this

theorem eager_error_mem_lazy_errors (T : ScopeTable) (d : Depth) (S : Schema) (D : Frame) (e : Err)
    (h : runEager (frameSteps T d S) D = .error e) : e ∈ frameErrors T d S D :=
  List.mem_of_mem_head? (eager_error_is_first_lazy_error T d S D e h)

/-- with no parsing option the eager run returns its input -/
theorem eager_ok_returns_input (T : ScopeTable) (d : Depth) (S : Schema) (D D' : Frame)
    (h : runEager (frameSteps T d S) D = .ok D') : D' = D := by
  have := eager_ok_state_eq_lazy (frameSteps T d S) D D' h
  rw [lazy_run_eq_frameErrors] at this
  exact this.symm

/-! ### exactness of the reported failure cases (field level, every check function) -/

/-- nullability: the reported cells are exactly the null positions -/
theorem null_cells_exact (T : ScopeTable) (ctx : Ctx) (spec : ColSpec) (fn : Option String)
    (phys : DType) (vals : List Val) (c : Cell) :
    (∃ e ∈ fieldErrors T .schemaAndData ctx spec fn phys vals,
        e.reason = .seriesContainsNulls ∧ c ∈ e.cells) ↔
      (spec.nullable = false ∧ c.col = fn ∧ vals[c.pos]? = some c.val ∧ c.val.isNull = true) := by
  unfold fieldErrors
  simp only [optRuns_sad, Bool.true_and, List.mem_append, or_and_right, exists_or]
  have hchk : ¬ ∃ e ∈ checksSteps ctx fn vals spec.checks, e.reason = .seriesContainsNulls ∧ c ∈ e.cells := by
    rintro ⟨e, he, hr, _⟩
    unfold checksSteps at he
    simp only [List.mem_flatten, List.mem_map] at he
    obtain ⟨l, ⟨p, _, rfl⟩, he⟩ := he
    unfold checkStep at he
    split at he <;> simp at he <;> simp [he] at hr
  constructor
  · rintro (((( ⟨e, he, hr, hc⟩ | ⟨e, he, hr, hc⟩) | ⟨e, he, hr, hc⟩) | ⟨e, he, hr, hc⟩) | h)
    · split at he <;> simp at he; simp [he] at hr
    · split at he
      · rename_i hcond
        simp only [List.mem_singleton] at he
        subst he
        simp only [mem_cellsAt_iff, mem_truePositions_iff] at hc
        obtain ⟨h1, h2, h3⟩ := hc
        simp only [Bool.and_eq_true, Bool.not_eq_eq_eq_not, Bool.not_true] at hcond
        refine ⟨hcond.1, h1, ?_, ?_⟩
        · rw [List.getElem?_map] at h2
          cases hv : vals[c.pos]? with
          | none => simp [hv] at h2
          | some v => simp [h3, List.getD_eq_getElem?_getD, hv]
        · rw [List.getElem?_map] at h2
          cases hv : vals[c.pos]? with
          | none => simp [hv] at h2
          | some v =>
            simp only [hv, Option.map_some, Option.some.injEq] at h2
            simp [h3, List.getD_eq_getElem?_getD, hv, h2]
      · simp at he
    · split at he <;> simp at he; simp [he] at hr
    · unfold dtypeErrs at he
      split at he
      · simp at he
      · split at he <;> simp at he; simp [he] at hr
    · exact absurd h hchk
  · rintro ⟨hn, hcol, hv, hnull⟩
    left; left; left; right
    have hpos : c.pos ∈ truePositions (vals.map Val.isNull) := by
      rw [mem_truePositions_iff, List.getElem?_map, hv]; simp [hnull]
    have hne : (truePositions (vals.map Val.isNull)).isEmpty = false := by
      cases hl : truePositions (vals.map Val.isNull) with
      | nil => rw [hl] at hpos; simp at hpos
      | cons a l => rfl
    refine ⟨_, by simp only [hn, hne, Bool.not_false, Bool.and_self, ↓reduceIte, List.mem_singleton]; rfl,
      rfl, ?_⟩
    simp only [mem_cellsAt_iff]
    exact ⟨hcol, hpos, by simp [List.getD_eq_getElem?_getD, hv]⟩

/-- a check's reported cells are exactly the elements shown to the function on which it
answers `false` — for **every** check function `f`, with nulls hidden iff `ignore_na` -/
theorem check_cells_exact (f : Val → Option Bool) (ign : Bool) (vals : List Val) (ps : List Nat)
    (h : runCheckFn f ign vals = .fails ps) (i : Nat) :
    i ∈ ps ↔ ∃ v, vals[i]? = some v ∧ (ign && v.isNull) = false ∧ f v = some false :=
  runCheckFn_fails_mem f ign vals ps h i

/-- error counts: one collected error per reported reason (the histogram of the lazy list) -/
def errorCounts (es : List Err) (r : Reason) : Nat := (es.filter (·.reason = r)).length

theorem error_counts_sum (es : List Err) (rs : List Reason) (hnd : rs.Nodup)
    (hall : ∀ e ∈ es, e.reason ∈ rs) : (rs.map (errorCounts es)).sum = es.length := by
  induction es with
  | nil =>
    clear hnd hall
    induction rs with
    | nil => rfl
    | cons r rs ih => simpa [errorCounts] using ih
  | cons e es ih =>
    have hm : e.reason ∈ rs := hall e (by simp)
    have ih' := ih (fun x hx => hall x (by simp [hx]))
    have key : ∀ (rs : List Reason), rs.Nodup → e.reason ∈ rs →
        (rs.map (errorCounts (e :: es))).sum = (rs.map (errorCounts es)).sum + 1 := by
      intro rs
      induction rs with
      | nil => simp
      | cons r rs ihr =>
        intro hnd hm
        rw [List.nodup_cons] at hnd
        simp only [List.map_cons, List.sum_cons]
        by_cases hr : e.reason = r
        · have hnot : e.reason ∉ rs := hr ▸ hnd.1
          have hrest : rs.map (errorCounts (e :: es)) = rs.map (errorCounts es) := by
            apply List.map_congr_left
            intro r' hr'
            have : e.reason ≠ r' := fun h => hnot (h ▸ hr')
            simp [errorCounts, this]
          rw [hrest]
          simp [errorCounts, hr]
          omega
        · have hm' : e.reason ∈ rs := by
            rcases List.mem_cons.mp hm with h | h
            · exact absurd h hr
            · exact h
          rw [ihr hnd.2 hm']
          simp [errorCounts, hr]
          omega
    rw [key rs hnd hm, ih']
    simp

end C02
end Pandera

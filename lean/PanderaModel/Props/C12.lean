import PanderaModel.IO
import PanderaModel.Lemmas.Transform
import PanderaModel.Props.C15
import PanderaModel.Generated.ScriptSlots
import PanderaModel.Generated.ColumnProps
import PanderaModel.Generated.CheckApi
/-!
# C12 — schema serialisation round-trips

* the check-statistics codec is a bijection on well-formed checks (`deser_ser_check`), and a list of
  checks survives being keyed by name exactly when the names are distinct (`deser_ser_checks`;
  `same_kind_checks_collapse` is the witness of the recorded region);
* a script slot reads back as the value it was filled with whenever its mode is adequate for the
  kind of value (`seen_lit_of_modeOk`), and not otherwise (`raw_text_is_a_name`, …);
* per-run obligations over the tables regenerated from `pandera/io/pandas_io.py`: every
  serialisable attribute has a slot filled from that attribute in an adequate mode, the slots are
  constructor parameters, the yaml/json writer and reader use the same keys, and a unary check's
  only statistic is the first positional parameter of its constructor.
-/
namespace Pandera.IO
open Pandera.Transform (dictOf dictSet keys mem_keys lookup_eq_none_iff lookup_append_of_not_mem dictOf_nodup)
open Pandera.Generated.ScriptSlots

/-! ## the check codec -/

theorem lookup_map_val_none {stats : List (String × SV)} {k : String} (h : k ∉ keys stats) :
    (stats.map fun p => (p.1, Entry.val p.2)).lookup k = none := by
  apply lookup_eq_none_iff.mpr
  intro hin
  apply h
  rcases mem_keys.mp hin with ⟨v, hv⟩
  rcases List.mem_map.mp hv with ⟨p, hp, he⟩
  have : p.1 = k := by simpa using congrArg Prod.fst he
  exact mem_keys.mpr ⟨p.2, by rw [← this]; exact hp⟩

theorem filter_map_val {stats : List (String × SV)} (h : "options" ∉ keys stats) :
    (stats.map fun p => (p.1, Entry.val p.2)).filter (fun p => p.1 != "options")
      = stats.map fun p => (p.1, Entry.val p.2) := by
  apply List.filter_eq_self.mpr
  intro q hq
  rcases List.mem_map.mp hq with ⟨p, hp, rfl⟩
  have : p.1 ≠ "options" := fun e => h (mem_keys.mpr ⟨p.2, by rw [← e]; exact hp⟩)
  simpa using this

theorem mapM_entryVal_map (stats : List (String × SV)) :
    (stats.map fun p => (p.1, Entry.val p.2)).mapM entryVal = some stats := by
  induction stats with
  | nil => rfl
  | cons p st ih =>
    rw [List.map_cons, List.mapM_cons, ih]
    rfl

/-- **the check codec round-trips**: for a check whose statistics do not use the reserved key
`options` and, when it has exactly one statistic, whose statistic is the first positional
parameter of its constructor, reading back what was written gives the same statistics and options -/
theorem deser_ser_check (c : CheckS) (first : Option String)
    (hopt : "options" ∉ keys c.stats)
    (hfirst : ∀ k v, c.stats = [(k, v)] → first = some k) :
    deserCheck first (serCheck c) = some (c.stats, c.options) := by
  obtain ⟨name, stats, options⟩ := c
  simp only at hopt hfirst
  match stats, hopt, hfirst with
  | [], _, _ =>
    cases options with
    | nil => rfl
    | cons o os => rfl
  | [(k, v)], _, hfirst =>
    have hf := hfirst k v rfl
    subst hf
    cases options with
    | nil => rfl
    | cons o os =>
      show deserCheck (some k) (.map [("value", .val v), ("options", .sub (o :: os))]) = _
      rfl
  | (ak, av) :: (bk, bv) :: rest, hopt, _ =>
    let a := (ak, av)
    let b := (bk, bv)
    cases options with
    | nil =>
      show deserCheck first (.map ((a :: b :: rest).map (fun p => (p.1, Entry.val p.2)) ++ [])) = _
      rw [List.append_nil]
      unfold deserCheck
      simp only
      rw [lookup_map_val_none hopt, filter_map_val hopt]
      simp only [List.map_cons]
      rw [List.mapM_cons, List.mapM_cons, mapM_entryVal_map]
      rfl
    | cons o os =>
      show deserCheck first (.map ((a :: b :: rest).map (fun p => (p.1, Entry.val p.2))
            ++ [("options", Entry.sub (o :: os))])) = _
      unfold deserCheck
      simp only
      have hk : "options" ∉ keys ((a :: b :: rest).map fun p => (p.1, Entry.val p.2)) := by
        intro hin
        rcases mem_keys.mp hin with ⟨v, hv⟩
        rcases List.mem_map.mp hv with ⟨p, hp, he⟩
        have : p.1 = "options" := by simpa using congrArg Prod.fst he
        exact hopt (mem_keys.mpr ⟨p.2, by rw [← this]; exact hp⟩)
      rw [lookup_append_of_not_mem hk, List.filter_append, filter_map_val hopt]
      simp only [List.lookup_cons, beq_self_eq_true, List.filter_cons, bne_self_eq_false, Bool.false_eq_true,
        if_false, List.filter_nil, List.append_nil, List.map_cons]
      rw [List.mapM_cons, List.mapM_cons, mapM_entryVal_map]
      rfl

/-- a check is fit for the codec -/
def CheckOk (first : String → Option String) (c : CheckS) : Prop :=
  "options" ∉ keys c.stats ∧ ∀ k v, c.stats = [(k, v)] → first c.name = some k

theorem mapM_deser (first : String → Option String) (cs : List CheckS) (h : ∀ c ∈ cs, CheckOk first c) :
    (cs.map fun c => (c.name, serCheck c)).mapM
      (fun p => (deserCheck (first p.1) p.2).map fun r => ({ name := p.1, stats := r.1, options := r.2 } : CheckS))
    = some cs := by
  induction cs with
  | nil => rfl
  | cons c cs ih =>
    have hc := h c List.mem_cons_self
    rw [List.map_cons, List.mapM_cons, deser_ser_check c (first c.name) hc.1 hc.2,
        ih (fun x hx => h x (List.mem_cons_of_mem _ hx))]
    rfl

/-- **checks keyed by name round-trip when the names are distinct** -/
theorem deser_ser_checks (first : String → Option String) (cs : List CheckS)
    (hn : (cs.map (·.name)).Nodup) (h : ∀ c ∈ cs, CheckOk first c) :
    deserChecks first (serChecks cs) = some cs := by
  unfold deserChecks serChecks
  have hk : keys (cs.map fun c => (c.name, serCheck c)) = cs.map (·.name) := by
    unfold keys; rw [List.map_map]; rfl
  rw [dictOf_nodup _ (by rw [hk]; exact hn)]
  exact mapM_deser first cs h

/-- the recorded region `K_C12_sameKindChecks`: two checks of the same kind share one key, the
later one wins and the earlier one is lost -/
theorem same_kind_checks_collapse :
    let gt0 : CheckS := { name := "greater_than", stats := [("min_value", .atom (.int 0))], options := [] }
    let gt5 : CheckS := { name := "greater_than", stats := [("min_value", .atom (.int 5))], options := [] }
    deserChecks (fun _ => some "min_value") (serChecks [gt0, gt5]) = some [gt5] := by
  decide

/-! ## script slots -/

/-- a slot filled in a mode adequate for its kind of value reads back as that value -/
theorem seen_lit_of_modeOk (m : Mode) (ty : Ty) (v : PyVal) (hm : modeOk m ty = true) (hv : hasTy ty v = true) :
    seen m v = .lit v := by
  cases m <;> cases ty <;> simp [modeOk] at hm <;> cases v <;> simp_all [hasTy, seen]

/-- raw filling of free text yields a bare name: `title=T` (NameError), `strict=filter` (the builtin) -/
theorem raw_text_is_a_name : seen .raw (.str "T") = .name "T" ∧ seen .raw (.str "filter") = .name "filter" := by
  decide

theorem raw_free_text_breaks : seen .raw (.str "D d") = .broken := by decide

/-- hand-quoting breaks on a quote inside the text -/
theorem quoted_text_breaks : seen .quoted (.str "t\"q") = .broken := by decide

/-- raw filling is not adequate for text, nor hand-quoting -/
theorem modeOk_text_iff (m : Mode) : modeOk m .text = true ↔ m = .repr := by
  cases m <;> simp [modeOk]

/-! ## per-run obligations over the regenerated tables -/

/-- the serialisable attributes of a Column and how a script must fill them -/
def columnSpec : List (String × Option Ty) :=
  [("dtype", none), ("checks", none), ("nullable", some .flag), ("unique", some .flag), ("coerce", some .flag),
   ("required", some .flag), ("regex", some .flag), ("description", some .text), ("title", some .text)]

def indexSpec : List (String × Option Ty) :=
  [("dtype", none), ("checks", none), ("nullable", some .flag), ("unique", some .flag), ("coerce", some .flag),
   ("name", some .text), ("description", some .text), ("title", some .text)]

def schemaSpec : List (String × Option Ty) :=
  [("columns", none), ("checks", none), ("index", none), ("dtype", none), ("coerce", some .flag),
   ("strict", some .strict), ("name", some .text), ("ordered", some .flag), ("unique", some .names),
   ("report_duplicates", some .enum), ("unique_column_names", some .flag), ("add_missing_columns", some .flag),
   ("title", some .text), ("description", some .text)]

/-- `to_script`: every serialisable Column attribute has a slot of `COLUMN_TEMPLATE`, filled from that
attribute in a mode that is a Python literal for every value of its kind -/
theorem column_slots_ok : fillOk columnFill columnSpec = true := by decide
theorem index_slots_ok : fillOk indexFill indexSpec = true := by decide
theorem schema_slots_ok : fillOk scriptFill schemaSpec = true := by decide

/-- the filled keywords are exactly the template's slots, and the slots are constructor parameters -/
theorem slots_are_filled_and_are_parameters :
    (columnFill.map (·.1) == columnSlots && indexFill.map (·.1) == indexSlots && scriptFill.map (·.1) == scriptSlots
     && columnSlots.all (fun s => (keys Pandera.Generated.ColumnProps.pandasColumnCtor).contains s)
     && indexSlots.all (fun s => (keys Pandera.Generated.ColumnProps.componentCtor).contains s)) = true := by decide

/-- what the fills read exists in the statistics they read it from -/
theorem fills_read_existing_statistics :
    (columnFill.all (fun f => columnStatKeys.contains f.2.2) && indexFill.all (fun f => indexStatKeys.contains f.2.2)) = true := by
  decide

/-- yaml/json: the reader reads every key the writer writes for a component, and vice versa; the
component keys cover the serialisable attributes -/
theorem component_keys_agree :
    (serializeCompKeys.all (fun k => deserializeCompKeys.contains k)
     && deserializeCompKeys.all (fun k => serializeCompKeys.contains k)
     && ["title", "description", "dtype", "nullable", "checks", "name", "unique", "coerce", "required", "regex"].all
          (fun k => serializeCompKeys.contains k)) = true := by decide

theorem schema_keys_agree :
    (deserializeTopKeys.all (fun k => serializeTopKeys.contains k)
     && ["columns", "checks", "index", "dtype", "coerce", "strict", "name", "ordered", "unique", "report_duplicates",
         "unique_column_names", "add_missing_columns", "title", "description"].all
          (fun k => deserializeTopKeys.contains k)) = true := by decide

/-- a unary built-in's only statistic is the first positional parameter of its constructor (so the
bare value written for it is bound to the right parameter when read back) -/
theorem unary_statistic_is_first_parameter :
    (Pandera.Generated.checkApi.all fun e =>
      match e.2 with
      | .builtin _ [kw] => Pandera.Generated.checkFirstParam.lookup e.1 == some kw.2
      | _ => true) = true := by decide

/-! ## non-vacuity -/

example : CheckOk (fun _ => some "min_value")
    { name := "greater_than", stats := [("min_value", .atom (.int 0))], options := [("ignore_na", .atom (.bool true))] } := by
  refine ⟨by decide, ?_⟩
  intro k v h
  cases h; rfl

example : deserCheck (some "min_value") (serCheck
    { name := "in_range", stats := [("min_value", .atom (.int 0)), ("max_value", .atom (.int 5)),
        ("include_min", .atom (.bool true)), ("include_max", .atom (.bool false))],
      options := [("raise_warning", .atom (.bool false)), ("ignore_na", .atom (.bool true))] })
    = some ([("min_value", .atom (.int 0)), ("max_value", .atom (.int 5)),
        ("include_min", .atom (.bool true)), ("include_max", .atom (.bool false))],
       [("raise_warning", .atom (.bool false)), ("ignore_na", .atom (.bool true))]) := by decide

end Pandera.IO

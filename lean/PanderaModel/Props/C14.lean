import PanderaModel.Infer
import PanderaModel.Lemmas.Round
import PanderaModel.Spec
import PanderaModel.Generated.InferStats
/-!
# C14 — an inferred schema accepts the data it was inferred from

`infer_field_ok`: the component inferred from an array is satisfied by that array (declarative
semantics of C01: dtype, nullability, every inferred check on every value), for every array whose
values fit its dtype; `infer_frame_sat` lifts it to frames.  `bounds_tight`: the inferred bounds are
attained by an element of the data.  Integers beyond 2^53: the bound is `float(min)`, and the
comparison the check performs is between `float(x)` and that bound — `float_bounds_accept` states
the acceptance for every monotone conversion, `roundF64_small` that conversion is exact on the
53-bit range (where the exact comparison of the model applies).
-/
namespace Pandera.Infer
open Pandera Pandera.Spec

/-! ## minimum / maximum -/

theorem minKey_spec : ∀ (ks : List Int) (m : Int), minKey ks = some m → m ∈ ks ∧ ∀ k ∈ ks, m ≤ k := by
  intro ks
  induction ks with
  | nil => intro m h; cases h
  | cons k ks ih =>
    intro m h
    unfold minKey at h
    cases hm : minKey ks with
    | none =>
      rw [hm] at h
      simp only [Option.some.injEq] at h
      subst h
      cases ks with
      | nil => simp
      | cons a as =>
        unfold minKey at hm
        cases h2 : minKey as <;> rw [h2] at hm <;> cases hm
    | some m' =>
      rw [hm] at h
      simp only [Option.some.injEq] at h
      obtain ⟨hmem, hle⟩ := ih m' hm
      by_cases hk : k ≤ m'
      · rw [if_pos hk] at h; subst h
        refine ⟨List.mem_cons_self, ?_⟩
        intro x hx
        rcases List.mem_cons.mp hx with rfl | hx
        · exact Int.le_refl _
        · exact Int.le_trans hk (hle x hx)
      · rw [if_neg hk] at h; subst h
        refine ⟨List.mem_cons_of_mem _ hmem, ?_⟩
        intro x hx
        rcases List.mem_cons.mp hx with rfl | hx
        · omega
        · exact hle x hx

theorem maxKey_spec : ∀ (ks : List Int) (m : Int), maxKey ks = some m → m ∈ ks ∧ ∀ k ∈ ks, k ≤ m := by
  intro ks
  induction ks with
  | nil => intro m h; cases h
  | cons k ks ih =>
    intro m h
    unfold maxKey at h
    cases hm : maxKey ks with
    | none =>
      rw [hm] at h
      simp only [Option.some.injEq] at h
      subst h
      cases ks with
      | nil => simp
      | cons a as =>
        unfold maxKey at hm
        cases h2 : maxKey as <;> rw [h2] at hm <;> cases hm
    | some m' =>
      rw [hm] at h
      simp only [Option.some.injEq] at h
      obtain ⟨hmem, hle⟩ := ih m' hm
      by_cases hk : m' ≤ k
      · rw [if_pos hk] at h; subst h
        refine ⟨List.mem_cons_self, ?_⟩
        intro x hx
        rcases List.mem_cons.mp hx with rfl | hx
        · exact Int.le_refl _
        · exact Int.le_trans (hle x hx) hk
      · rw [if_neg hk] at h; subst h
        refine ⟨List.mem_cons_of_mem _ hmem, ?_⟩
        intro x hx
        rcases List.mem_cons.mp hx with rfl | hx
        · omega
        · exact hle x hx

/-! ## the inferred bounds hold for every element -/

/-- integers of the array are exactly representable as doubles (the range in which the model's
exact comparison coincides with numpy's) -/
def SafeInts (dt : DType) (vals : List Val) : Prop :=
  dt = .int64 → ∀ k ∈ vals.filterMap (keyOf dt), roundF64 k = k

theorem ge_bound_ok {dt : DType} {v : Val} {k lo : Int} (hk : keyOf dt v = some k) (hle : lo ≤ k)
    (hs : dt = .int64 → roundF64 lo = lo) : docPred (.ge (boundOf dt lo)) v = some true := by
  cases dt <;> cases v <;> simp [keyOf] at hk
  · subst hk
    simp only [docPred, boundOf, hs rfl, Val.le?, Val.numKey]
    simp; omega
  · subst hk
    simp only [docPred, boundOf, Val.le?, Val.numKey]
    simp; omega
  · subst hk
    simp only [docPred, boundOf, Val.le?]
    simp; omega

theorem le_bound_ok {dt : DType} {v : Val} {k hi : Int} (hk : keyOf dt v = some k) (hle : k ≤ hi)
    (hs : dt = .int64 → roundF64 hi = hi) : docPred (.le (boundOf dt hi)) v = some true := by
  cases dt <;> cases v <;> simp [keyOf] at hk
  · subst hk
    simp only [docPred, boundOf, hs rfl, Val.le?, Val.numKey]
    simp; omega
  · subst hk
    simp only [docPred, boundOf, Val.le?, Val.numKey]
    simp; omega
  · subst hk
    simp only [docPred, boundOf, Val.le?]
    simp; omega

/-- a value that fits the dtype is a null or has a key, unless the dtype has no bounds -/
theorem fits_key {dt : DType} {v : Val} (hf : valFits dt v = true) :
    v.isNull = true ∨ (∃ k, keyOf dt v = some k) ∨ (∀ w, keyOf dt w = none) := by
  cases dt <;> cases v <;> simp [valFits, Val.kind?, Val.isNull, keyOf] at hf ⊢
  all_goals first
    | exact Or.inr (fun w => by cases w <;> rfl)

/-- **every inferred check holds on every value of the array** -/
theorem inferred_checks_hold (dt : DType) (vals : List Val) (hfit : ∀ v ∈ vals, valFits dt v = true)
    (hsafe : SafeInts dt vals) :
    ∀ c ∈ inferChecks dt vals, ∀ v ∈ vals, valOk c v = true := by
  intro c hc v hv
  unfold inferChecks at hc
  simp only at hc
  cases hlo : minKey (vals.filterMap (keyOf dt)) with
  | none => rw [hlo] at hc; cases hc
  | some lo =>
    cases hhi : maxKey (vals.filterMap (keyOf dt)) with
    | none => rw [hlo, hhi] at hc; cases hc
    | some hi =>
      rw [hlo, hhi] at hc
      obtain ⟨hlomem, hlole⟩ := minKey_spec _ _ hlo
      obtain ⟨himem, hile⟩ := maxKey_spec _ _ hhi
      unfold valOk
      rcases fits_key (hfit v hv) with hn | ⟨k, hk⟩ | hnone
      · have hc' : c.ignoreNa = true := by
          rcases List.mem_cons.mp hc with rfl | hc2
          · rfl
          · rcases List.mem_cons.mp hc2 with rfl | hc3
            · rfl
            · cases hc3
        simp [hc', hn]
      · have hkm : k ∈ vals.filterMap (keyOf dt) := List.mem_filterMap.mpr ⟨v, hv, hk⟩
        rcases List.mem_cons.mp hc with rfl | hc2
        · simp only [ge_bound_ok hk (hlole k hkm) (fun h => hsafe h lo hlomem)]
          simp
        · rcases List.mem_cons.mp hc2 with rfl | hc3
          · simp only [le_bound_ok hk (hile k hkm) (fun h => hsafe h hi himem)]
            simp
          · cases hc3
      · -- no value of this dtype has a key: there is no minimum
        have : vals.filterMap (keyOf dt) = [] := by
          apply List.filterMap_eq_nil_iff.mpr
          intro w _; exact hnone w
        rw [this] at hlo; cases hlo

/-- **the component inferred from an array is satisfied by that array** -/
theorem infer_field_ok (name : Option String) (dt : DType) (vals : List Val)
    (hfit : ∀ v ∈ vals, valFits dt v = true) (hsafe : SafeInts dt vals) :
    fieldOk (inferField name dt vals) name dt vals := by
  refine ⟨Or.inr rfl, ?_, ?_, ?_, ?_⟩
  · show (vals.any (·.isNull)) = true ∨ _
    by_cases h : vals.any (·.isNull) = true
    · exact Or.inl h
    · right
      intro v hv
      cases hn : v.isNull with
      | false => rfl
      | true => exact absurd (List.any_eq_true.mpr ⟨v, hv, hn⟩) h
  · intro h; cases h
  · intro t ht
    have : t = dt := by
      have : (inferField name dt vals).dtype = some dt := rfl
      rw [this] at ht; cases ht; rfl
    subst this
    simp [dtypeOk]
  · exact inferred_checks_hold dt vals hfit hsafe

/-- the bounds are tight: each is attained by an element of the data -/
theorem bounds_tight (dt : DType) (vals : List Val) (lo hi : Int)
    (hlo : minKey (vals.filterMap (keyOf dt)) = some lo) (hhi : maxKey (vals.filterMap (keyOf dt)) = some hi) :
    (∃ v ∈ vals, keyOf dt v = some lo) ∧ (∃ v ∈ vals, keyOf dt v = some hi) := by
  obtain ⟨h1, _⟩ := minKey_spec _ _ hlo
  obtain ⟨h2, _⟩ := maxKey_spec _ _ hhi
  exact ⟨List.mem_filterMap.mp h1, List.mem_filterMap.mp h2⟩

/-! ## frames -/

theorem find_of_nodup (cols : List Column) (c : Column) (hn : (cols.map (·.name)).Nodup) (hc : c ∈ cols) :
    cols.find? (·.name == c.name) = some c := by
  induction cols with
  | nil => cases hc
  | cons a as ih =>
    have hn' : a.name ∉ as.map (·.name) ∧ (as.map (·.name)).Nodup := by simpa using hn
    rcases List.mem_cons.mp hc with rfl | h
    · simp [List.find?]
    · have hne : (a.name == c.name) = false := by
        have : a.name ≠ c.name := fun e => hn'.1 (e ▸ List.mem_map.mpr ⟨c, h, rfl⟩)
        simpa using this
      simp only [List.find?, hne]
      exact ih hn'.2 h

/-- **the schema inferred from a frame is satisfied by that frame** (single-level index) -/
theorem infer_frame_sat (D : Frame) (hwf : D.WF = true) (l : Level) (hix : D.index = [l])
    (hsafe : (∀ c ∈ D.cols, SafeInts c.dtype c.vals) ∧ SafeInts l.dtype l.vals) :
    Sat (inferFrame D) D := by
  simp only [Frame.WF, Bool.and_eq_true, decide_eq_true_eq, List.all_eq_true] at hwf
  obtain ⟨⟨⟨hnod, hcols⟩, hidx⟩, _⟩ := hwf
  refine ⟨?_, ?_, ?_, ?_, ?_⟩
  · intro spec hspec
    rcases List.mem_map.mp hspec with ⟨c, hc, rfl⟩
    show columnSat (inferField (some c.name) c.dtype c.vals) D
    unfold columnSat
    simp only [inferField]
    refine ⟨fun _ => ?_, ?_⟩
    · show D.names.contains c.name = true
      simp only [Frame.names, List.contains_iff_mem]
      exact List.mem_map.mpr ⟨c, hc, rfl⟩
    · intro c' hc'
      have : D.col? c.name = some c := find_of_nodup D.cols c hnod hc
      rw [this] at hc'; cases hc'
      have hfit : ∀ v ∈ c.vals, valFits c.dtype v = true := by
        exact (hcols c hc).2
      exact infer_field_ok (some c.name) c.dtype c.vals hfit (hsafe.1 c hc)
  · intro h; cases h
  · intro h; cases h
  · intro h; exact absurd rfl h
  · intro ix hixs
    have : (inferFrame D).index = some (inferField l.name l.dtype l.vals) := by
      simp [inferFrame, hix]
    rw [this] at hixs; cases hixs
    refine ⟨l, hix, ?_⟩
    have hfit : ∀ v ∈ l.vals, valFits l.dtype v = true := by
      exact (hidx l (by rw [hix]; exact List.mem_cons_self)).2
    exact infer_field_ok l.name l.dtype l.vals hfit hsafe.2

/-! ## `float()` -/

/-- conversion to double is exact on the 53-bit range -/
theorem roundNat_small (n : Nat) (h : n < 2 ^ 53) : roundNat n = n := by
  unfold roundNat
  have : bitLen n ≤ 53 := by
    unfold bitLen
    split
    · omega
    · rename_i hn
      have := (Nat.log2_lt hn).mpr h
      omega
  simp [this]

theorem roundF64_small (i : Int) (h : -(2 ^ 53 : Int) < i ∧ i < 2 ^ 53) : roundF64 i = i := by
  unfold roundF64
  split
  · rename_i hpos
    have : i.toNat < 2 ^ 53 := by omega
    rw [roundNat_small _ this]; omega
  · rename_i hneg
    have : (-i).toNat < 2 ^ 53 := by omega
    rw [roundNat_small _ this]; omega

/-- beyond that range the check compares `float(x)` with `float(min)`: for **any** monotone
conversion the minimum's image is below every element's image, and symmetrically for the maximum -/
theorem float_bounds_accept (conv : Int → Int) (mono : ∀ a b, a ≤ b → conv a ≤ conv b)
    (ks : List Int) (lo hi : Int) (hlo : minKey ks = some lo) (hhi : maxKey ks = some hi) :
    ∀ k ∈ ks, conv lo ≤ conv k ∧ conv k ≤ conv hi := by
  intro k hk
  exact ⟨mono _ _ ((minKey_spec _ _ hlo).2 k hk), mono _ _ ((maxKey_spec _ _ hhi).2 k hk)⟩

/-- `float()` itself — IEEE-754 binary64, round to nearest, ties to even, as modelled by `roundF64`
and compared with Python's `float` by the harness on every run — **is** monotone
(`Lemmas/Round.lean`: the rounding is monotone on each grid `2 ^ e`, grid points are fixed, and the
grids of neighbouring bit lengths meet in a power of two lying on both).  So for integers of any
size, the inferred bounds `float(min)` and `float(max)` accept every element under the comparison
numpy performs (`float(x) >= float(min)`, `float(x) <= float(max)`): no hypothesis is left. -/
theorem float_bounds_accept_binary64 (ks : List Int) (lo hi : Int)
    (hlo : minKey ks = some lo) (hhi : maxKey ks = some hi) :
    ∀ k ∈ ks, roundF64 lo ≤ roundF64 k ∧ roundF64 k ≤ roundF64 hi :=
  float_bounds_accept roundF64 (fun _ _ h => roundF64_mono h) ks lo hi hlo hhi

theorem roundF64_monotone (a b : Int) (h : a ≤ b) : roundF64 a ≤ roundF64 b := roundF64_mono h

/-- non-vacuity beyond 2^53: 2^53 + 1 rounds down to 2^53 (tie to even), 2^53 + 3 rounds up to 2^53 + 4 -/
example : roundF64 (2 ^ 53 + 1) = 2 ^ 53 ∧ roundF64 (2 ^ 53 + 3) = 2 ^ 53 + 4 ∧ roundF64 (-(2 ^ 53 + 1)) = -(2 ^ 53) := by
  decide

/-! ## per-run obligations: the model's inference is the code's -/

/-- which (check, aggregate) pairs are sound: a lower bound at the minimum, an upper bound at the
maximum, membership in the categories -/
def soundStat (s : String × String × String) : Bool :=
  (s.1 == "greater_than_or_equal_to" && s.2.1 == "min") || (s.1 == "less_than_or_equal_to" && s.2.1 == "max")
  || (s.1 == "isin" && s.2.1 == "categories")

/-- every statistic `_get_array_check_statistics` infers is sound, numeric and datetime data get both
bounds (tightness), integers and floats go through `float()`, timestamps are kept as they are; an
all-null array gets no checks; `nullable` is "some element is null"; the inferred Column takes dtype,
checks and nullable from the statistics -/
theorem inference_table_ok :
    (Pandera.Generated.InferStats.branches.all (fun b => b.2.all soundStat)
     && Pandera.Generated.InferStats.branches.lookup "numeric"
          == some [("greater_than_or_equal_to", "min", "float"), ("less_than_or_equal_to", "max", "float")]
     && Pandera.Generated.InferStats.branches.lookup "datetime"
          == some [("greater_than_or_equal_to", "min", "id"), ("less_than_or_equal_to", "max", "id")]
     && Pandera.Generated.InferStats.allNullGuard && Pandera.Generated.InferStats.elseEmpty
     && Pandera.Generated.InferStats.nullableAnyNull
     && Pandera.Generated.InferStats.columnFromStats == ["checks", "dtype", "nullable"]) = true := by decide

/-! ## witnesses: what would not be sound -/

/-- a strict bound at the minimum rejects the minimum itself -/
theorem strict_bound_rejects : docPred (.gt (boundOf .int64 1)) (.int 1) = some false := by decide

/-! ## non-vacuity -/

example : SafeInts .int64 [.int 3, .int (-7)] := by
  intro _ k hk
  have : k = 3 ∨ k = -7 := by simpa [keyOf] using hk
  rcases this with rfl | rfl <;> decide

example : roundF64 (2 ^ 53 + 3) = 2 ^ 53 + 4 ∧ roundF64 (2 ^ 53 + 1) = 2 ^ 53 := by decide

end Pandera.Infer

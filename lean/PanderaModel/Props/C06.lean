import PanderaModel.Parse
import PanderaModel.CheckBackend
import PanderaModel.Effects
import PanderaModel.Generated.Skeletons
/-!
# C06 — errors use the documented channel; failures leave no trace (exception safety)
-/
namespace Pandera
namespace C06
open Eff Generated

/-! ### a user check that raises is reported as a failed check -/

theorem mapM?_none_of_mem {α β : Type} (f : α → Option β) (xs : List α) (x : α) (hx : x ∈ xs)
    (h : f x = none) : mapM? f xs = none := by
  induction xs with
  | nil => cases hx
  | cons y ys ih =>
    unfold mapM?
    rcases List.mem_cons.mp hx with rfl | hm
    · simp [h]
    · rw [ih hm]; cases f y <;> rfl

/-- **C06 (a)** whichever call of an element-wise check function raises, the backend turns it into a
check error (eager: `SchemaError(CHECK_ERROR)`, lazy: a collected error) — never an escaping
exception, whatever the options -/
theorem check_fault_is_failure (f : Val → Option Bool) (o : CheckOpts) (vals : List Val)
    (h : ∃ v ∈ shownVals o.ignoreNa vals, f v = none) :
    runCheckOutcome (.elem f) o vals = .error := by
  obtain ⟨v, hv, hf⟩ := h
  unfold runCheckOutcome backendCall backendCallOn applyFn
  unfold shownVals at hv
  simp only [mapM?_none_of_mem f _ v hv hf, Option.map_none]

/-- the same for a vectorised / aggregate function that raises -/
theorem vectorised_fault_is_failure (g : List Val → Option (List Bool)) (o : CheckOpts) (vals : List Val)
    (h : g (shownVals o.ignoreNa vals) = none) : runCheckOutcome (.vec g) o vals = .error := by
  unfold runCheckOutcome backendCall backendCallOn applyFn
  unfold shownVals at h
  simp only [h, Option.map_none]

/-- in the validation pipeline a raising built-in (values of a kind the check cannot compare) yields
one CHECK_ERROR record and nothing else -/
theorem raising_check_is_one_error (ctx : Ctx) (label : Option String) (vals : List Val) (ix : Nat)
    (c : CheckSpec) (h : runCheck c vals = .raised) :
    checkStep ctx label vals ix c = [{ reason := .checkError, ctx, label, checkIx := some ix }] := by
  unfold checkStep; rw [h]

/-! ### the pipeline model has no internal failure mode left -/

/-- **C06 (b)** every parser of the model either transforms the frame or reports schema errors -/
theorem parse_never_crashes (S : Schema) (D : Frame) : parseFrame S D ≠ .crash := by
  unfold parseFrame
  have h : addMissingStep S D ≠ .crash := by
    unfold addMissingStep
    dsimp only
    split
    · simp
    · split
      · simp
      · split <;> simp
  cases ha : addMissingStep S D with
  | crash => exact absurd ha h
  | ok D1 e1 => simp

/-- **C06 (c)** lazy validation ends in the documented channel: it returns, or it raises the
collected schema errors -/
theorem validate_channel (T : ScopeTable) (d : Depth) (S : Schema) (D : Frame) :
    (∃ D', validateLazy T d S D = .ok D') ∨ (∃ es, es ≠ [] ∧ validateLazy T d S D = .errors es) := by
  unfold validateLazy
  cases hp : parseFrame S D with
  | crash => exact absurd hp (parse_never_crashes S D)
  | ok P pe =>
    simp only
    generalize hes : pe ++ strictOrderedErrors S D ++ coreCheckErrors T d S P = es
    by_cases he : es.isEmpty = true
    · simp [he]
    · simp only [he, Bool.false_eq_true, ↓reduceIte]
      have hne : es ≠ [] := by
        intro h; rw [h] at he; simp at he
      by_cases hd : S.dropInvalid = true
      · simp only [hd, ↓reduceIte]
        by_cases hn : es.any (fun e => e.cells.isEmpty) = true
        · simp only [hn, ↓reduceIte]; exact Or.inr ⟨_, hne, rfl⟩
        · simp only [hn, Bool.false_eq_true, ↓reduceIte]; exact Or.inl ⟨_, rfl⟩
      · simp only [hd, Bool.false_eq_true, ↓reduceIte]; exact Or.inr ⟨_, hne, rfl⟩

/-- **C06 (c)** corollary: no input makes lazy validation end outside the documented channel -/
theorem validate_never_crashes (T : ScopeTable) (d : Depth) (S : Schema) (D : Frame) :
    validateLazy T d S D ≠ .crash := by
  rcases validate_channel T d S D with ⟨D', h⟩ | ⟨es, _, h⟩ <;> rw [h] <;> simp

/-- **C06 (c)** nothing is swallowed: when errors are raised they are *exactly* the collected ones
(parser errors, strict / ordered errors, check errors — in that order) -/
theorem raised_errors_are_the_collected_ones (T : ScopeTable) (d : Depth) (S : Schema) (D : Frame)
    (es : List Err) (h : validateLazy T d S D = .errors es) :
    ∃ P pe, parseFrame S D = .ok P pe ∧ es = pe ++ strictOrderedErrors S D ++ coreCheckErrors T d S P := by
  unfold validateLazy at h
  cases hp : parseFrame S D with
  | crash => simp [hp] at h
  | ok P pe =>
    refine ⟨P, pe, rfl, ?_⟩
    simp only [hp] at h
    split at h
    · cases h
    · split at h
      · split at h
        · cases h; rfl
        · cases h
      · cases h; rfl

/-- **C06 (c)** a failure is silent only when the caller asked for it: without `drop_invalid_rows`,
validation returns only if *no* error was collected, and then it returns the parsed frame -/
theorem returns_only_without_errors (T : ScopeTable) (d : Depth) (S : Schema) (D D' : Frame)
    (hd : S.dropInvalid = false) (h : validateLazy T d S D = .ok D') :
    ∃ pe, parseFrame S D = .ok D' pe ∧ pe ++ strictOrderedErrors S D ++ coreCheckErrors T d S D' = [] := by
  unfold validateLazy at h
  cases hp : parseFrame S D with
  | crash => simp [hp] at h
  | ok P pe =>
    simp only [hp, hd, Bool.false_eq_true, ↓reduceIte] at h
    split at h
    · rename_i he
      cases h
      exact ⟨pe, rfl, by simpa using he⟩
    · cases h

/-! ### state is restored whichever callback raises (skeletons regenerated from the source) -/

/-- **C06 (d)** an exception at any point of component validation leaves the components' attributes
as they were -/
theorem fault_restores_component_attrs {c c' : Cfg} (hex : Exec skel_runSchemaComponentChecks c .exc c') :
    ∀ l, c'.1 l = c.1 l := restores_sound (by decide) hex

theorem fault_restores_regex_name {c c' : Cfg} (hex : Exec skel_validateColumn c .exc c') :
    ∀ l, c'.1 l = c.1 l := restores_sound (by decide) hex

theorem fault_restores_config {c c' : Cfg} (hex : Exec skel_configContext c .exc c') :
    ∀ l, c'.1 l = c.1 l := restores_sound (by decide) hex

theorem fault_restores_config_polars {c c' : Cfg} (hex : Exec skel_polarsContainerValidate c .exc c') :
    ∀ l, c'.1 l = c.1 l := restores_sound (by decide) hex

theorem fault_restores_config_polars_column {c c' : Cfg} (hex : Exec skel_polarsColumnValidate c .exc c') :
    ∀ l, c'.1 l = c.1 l := restores_sound (by decide) hex

/-- non-vacuity: the component-validation skeleton does have an exceptional execution that passes
through an overridden state -/
example : ∃ c c', Exec (.tryFinally (.seq (.setv 0 7) .call) (.restore 0 0)) c .exc c' :=
  ⟨(fun _ => 0, fun _ => 0), (upd (upd (fun _ => 0) 0 7) 0 0, fun _ => 0),
   .tfE (.seqN (.setv 0 7 _) (.callE _)) (.restore 0 0 _)⟩

end C06
end Pandera

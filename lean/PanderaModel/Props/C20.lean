import PanderaModel.Subsample
/-!
# C20 — head/tail/sample validate exactly the requested rows
-/
namespace Pandera
namespace C20

theorem eraseDupsBy_congr {α : Type} (r1 r2 : α → α → Bool) (l : List α)
    (h : ∀ a ∈ l, ∀ b ∈ l, r1 a b = r2 a b) : l.eraseDupsBy r1 = l.eraseDupsBy r2 := by
  induction hn : l.length using Nat.strongRecOn generalizing l with
  | _ n ih =>
    cases l with
    | nil => rfl
    | cons x xs =>
      rw [List.eraseDupsBy_cons, List.eraseDupsBy_cons]
      have hf : xs.filter (fun b => r1 b x = false) = xs.filter (fun b => r2 b x = false) := by
        apply List.filter_congr
        intro b hb
        rw [h b (by simp [hb]) x (by simp)]
      rw [hf]
      congr 1
      have hlen : (xs.filter (fun b => r2 b x = false)).length < n := by
        subst hn; exact Nat.lt_succ_of_le (List.length_filter_le _ _)
      apply ih _ hlen _ _ rfl
      intro a ha b hb
      exact h a (by simp [(List.mem_filter.mp ha).1]) b (by simp [(List.mem_filter.mp hb).1])

theorem mem_headPos {n h i : Nat} (hi : i ∈ headPos n h) : i < n := by
  unfold headPos at hi; simp at hi; omega

theorem mem_tailPos {n t i : Nat} (hi : i ∈ tailPos n t) : i < n := by
  unfold tailPos at hi
  have := List.mem_of_mem_drop hi
  simpa using this

theorem concatPos_lt (n : Nat) (h t : Option Nat) (s : Option (List Nat))
    (hs : ∀ ps, s = some ps → ∀ i ∈ ps, i < n) : ∀ i ∈ concatPos n h t s, i < n := by
  intro i hi
  unfold concatPos at hi
  simp only [List.mem_append] at hi
  rcases hi with (hi | hi) | hi
  · cases h with
    | none => simp at hi
    | some h => exact mem_headPos hi
  · cases t with
    | none => simp at hi
    | some t => exact mem_tailPos hi
  · cases s with
    | none => simp at hi
    | some ps => exact hs ps rfl i hi

/-- **C20 (a)** when the keys of distinct rows are distinct (unique index labels for pandas,
distinct rows for polars) the rows the code validates are exactly the requested rows: the first
`h`, the last `t` and the sampled ones, each once -/
theorem kept_eq_requested {κ : Type} [BEq κ] [LawfulBEq κ] (key : Nat → κ) (n : Nat)
    (h t : Option Nat) (s : Option (List Nat))
    (hs : ∀ ps, s = some ps → ∀ i ∈ ps, i < n)
    (hinj : ∀ i j, i < n → j < n → key i = key j → i = j) :
    keptPos key n h t s = requestedPos n h t s := by
  unfold keptPos requestedPos
  split
  · unfold List.eraseDups
    apply eraseDupsBy_congr
    intro a ha b hb
    have hla := concatPos_lt n h t s hs a ha
    have hlb := concatPos_lt n h t s hs b hb
    by_cases hab : a = b
    · subst hab
      show (key a == key a) = (a == a)
      rw [beq_self_eq_true, beq_self_eq_true]
    · have hk : key a ≠ key b := fun hk => hab (hinj a b hla hlb hk)
      show (key a == key b) = (a == b)
      rw [beq_eq_false_iff_ne.mpr hk, beq_eq_false_iff_ne.mpr hab]
  · rfl

/-- **C20 (b)** selecting all rows is the same as selecting none of the options (as a set of rows) -/
theorem head_all_covers_everything (n : Nat) (i : Nat) (hi : i < n) :
    i ∈ requestedPos n (some n) none none := by
  unfold requestedPos anyOption concatPos headPos
  simp only [Option.isSome_some, Bool.true_or, ↓reduceIte, Nat.min_self, List.append_nil]
  have : i ∈ List.range n := by simpa using hi
  induction hl : (List.range n).length using Nat.strongRecOn generalizing i with
  | _ k _ =>
    -- membership is preserved by eraseDups
    have key : ∀ (l : List Nat) (a : Nat), a ∈ l.eraseDups ↔ a ∈ l := by
      intro l
      induction hm : l.length using Nat.strongRecOn generalizing l with
      | _ m ihm =>
        intro a
        cases l with
        | nil => simp
        | cons x xs =>
          rw [List.eraseDups_cons]
          have hlen : (xs.filter fun b => !b == x).length < m := by
            subst hm; exact Nat.lt_succ_of_le (List.length_filter_le _ _)
          simp only [List.mem_cons, ihm _ hlen _ rfl, List.mem_filter]
          by_cases hax : a = x <;> simp [hax]
    exact (key _ i).mpr this

/-- no option: every row is validated -/
theorem no_option_all_rows (n : Nat) : requestedPos n none none none = List.range n := rfl

/-- the recorded pandas region: with a repeated index label a requested row is skipped -/
theorem K_C20_duplicateLabels_witness :
    ∃ (labels : List Nat), keptPos (fun i => labels.getD i 0) 4 (some 2) none none
      ≠ requestedPos 4 (some 2) none none :=
  ⟨[0, 0, 1, 2], by decide⟩

/-- the recorded polars region: equal rows at different positions are validated once -/
theorem K_C20_duplicateRows_witness :
    ∃ (rows : List Nat), keptPos (fun i => rows.getD i 0) 3 (some 3) none none
      ≠ requestedPos 3 (some 3) none none :=
  ⟨[1, 1, 1], by decide⟩

example : requestedPos 5 (some 2) (some 2) (some [1, 3]) = [0, 1, 3, 4] := by decide

end C20
end Pandera

import PanderaModel.Subsample
import PanderaModel.SubsampleValidate
import PanderaModel.Generated.SubsampleRules
/-!
# C20 — head/tail/sample validate exactly the requested rows
-/
namespace Pandera
namespace C20

theorem eraseDupsBy_congr {α : Type} (r1 r2 : α → α → Bool) (l : List α)
    (h : ∀ a ∈ l, ∀ b ∈ l, r1 a b = r2 a b) : l.eraseDupsBy r1 = l.eraseDupsBy r2 := by
  induction hn : l.length using Nat.strongRecOn generalizing l with
  | _ n ih =>
    cases l with
    | nil => rfl
    | cons x xs =>
      rw [List.eraseDupsBy_cons, List.eraseDupsBy_cons]
      have hf : xs.filter (fun b => r1 b x = false) = xs.filter (fun b => r2 b x = false) := by
        apply List.filter_congr
        intro b hb
        rw [h b (by simp [hb]) x (by simp)]
      rw [hf]
      congr 1
      have hlen : (xs.filter (fun b => r2 b x = false)).length < n := by
        subst hn; exact Nat.lt_succ_of_le (List.length_filter_le _ _)
      apply ih _ hlen _ _ rfl
      intro a ha b hb
      exact h a (by simp [(List.mem_filter.mp ha).1]) b (by simp [(List.mem_filter.mp hb).1])

theorem mem_headPos {n h i : Nat} (hi : i ∈ headPos n h) : i < n := by
  unfold headPos at hi; simp at hi; omega

theorem mem_tailPos {n t i : Nat} (hi : i ∈ tailPos n t) : i < n := by
  unfold tailPos at hi
  have := List.mem_of_mem_drop hi
  simpa using this

theorem concatPos_lt (n : Nat) (h t : Option Nat) (s : Option (List Nat))
    (hs : ∀ ps, s = some ps → ∀ i ∈ ps, i < n) : ∀ i ∈ concatPos n h t s, i < n := by
  intro i hi
  unfold concatPos at hi
  simp only [List.mem_append] at hi
  rcases hi with (hi | hi) | hi
  · cases h with
    | none => simp at hi
    | some h => exact mem_headPos hi
  · cases t with
    | none => simp at hi
    | some t => exact mem_tailPos hi
  · cases s with
    | none => simp at hi
    | some ps => exact hs ps rfl i hi

/-- **C20 (a)** when the keys of distinct rows are distinct (unique index labels for pandas,
distinct rows for polars) the rows the code validates are exactly the requested rows: the first
`h`, the last `t` and the sampled ones, each once -/
theorem kept_eq_requested {κ : Type} [BEq κ] [LawfulBEq κ] (key : Nat → κ) (n : Nat)
    (h t : Option Nat) (s : Option (List Nat))
    (hs : ∀ ps, s = some ps → ∀ i ∈ ps, i < n)
    (hinj : ∀ i j, i < n → j < n → key i = key j → i = j) :
    keptPos key n h t s = requestedPos n h t s := by
  unfold keptPos requestedPos
  split
  · unfold List.eraseDups
    apply eraseDupsBy_congr
    intro a ha b hb
    have hla := concatPos_lt n h t s hs a ha
    have hlb := concatPos_lt n h t s hs b hb
    by_cases hab : a = b
    · subst hab
      show (key a == key a) = (a == a)
      rw [beq_self_eq_true, beq_self_eq_true]
    · have hk : key a ≠ key b := fun hk => hab (hinj a b hla hlb hk)
      show (key a == key b) = (a == b)
      rw [beq_eq_false_iff_ne.mpr hk, beq_eq_false_iff_ne.mpr hab]
  · rfl

/-- **C20 (b)** selecting all rows is the same as selecting none of the options (as a set of rows) -/
theorem head_all_covers_everything (n : Nat) (i : Nat) (hi : i < n) :
    i ∈ requestedPos n (some n) none none := by
  unfold requestedPos anyOption concatPos headPos
  simp only [Option.isSome_some, Bool.true_or, ↓reduceIte, Nat.min_self, List.append_nil]
  have : i ∈ List.range n := by simpa using hi
  induction hl : (List.range n).length using Nat.strongRecOn generalizing i with
  | _ k _ =>
    -- membership is preserved by eraseDups
    have key : ∀ (l : List Nat) (a : Nat), a ∈ l.eraseDups ↔ a ∈ l := by
      intro l
      induction hm : l.length using Nat.strongRecOn generalizing l with
      | _ m ihm =>
        intro a
        cases l with
        | nil => simp
        | cons x xs =>
          rw [List.eraseDups_cons]
          have hlen : (xs.filter fun b => !b == x).length < m := by
            subst hm; exact Nat.lt_succ_of_le (List.length_filter_le _ _)
          simp only [List.mem_cons, ihm _ hlen _ rfl, List.mem_filter]
          by_cases hax : a = x <;> simp [hax]
    exact (key _ i).mpr this

/-- no option: every row is validated -/
theorem no_option_all_rows (n : Nat) : requestedPos n none none none = List.range n := rfl

/-- the recorded pandas region: with a repeated index label a requested row is skipped -/
theorem K_C20_duplicateLabels_witness :
    ∃ (labels : List Nat), keptPos (fun i => labels.getD i 0) 4 (some 2) none none
      ≠ requestedPos 4 (some 2) none none :=
  ⟨[0, 0, 1, 2], by decide⟩

/-- the recorded polars region: equal rows at different positions are validated once -/
theorem K_C20_duplicateRows_witness :
    ∃ (rows : List Nat), keptPos (fun i => rows.getD i 0) 3 (some 3) none none
      ≠ requestedPos 3 (some 3) none none :=
  ⟨[1, 1, 1], by decide⟩

example : requestedPos 5 (some 2) (some 2) (some [1, 3]) = [0, 1, 3, 4] := by decide

/-! ## The `subsample` programs and the argument tables of the source -/

/-- the program of both backends at the pinned commit -/
def stdProg : SubProg := { pieces := [.head, .tail, .sample], dedup := true, wholeWhenNoOption := true }

/-- the program `head; tail; sample; concat; de-duplicate` computes `keptPos` -/
theorem runSub_std {κ : Type} [BEq κ] (key : Nat → κ) (n : Nat) (h t : Option Nat) (s : Option (List Nat)) :
    runSub stdProg key n h t s = keptPos key n h t s := by
  cases h <;> cases t <;> cases s <;>
    simp [runSub, stdProg, keptPos, anyOption, concatPos, pieceRequested, piecePos, List.filter]

theorem mem_piecePos_requested {n : Nat} {h t : Option Nat} {s : Option (List Nat)} {pc : Piece} {i : Nat}
    (hi : i ∈ piecePos n h t s pc) : pieceRequested h t s pc = true := by
  cases pc
  · cases h <;> simp [piecePos, pieceRequested] at hi ⊢
  · cases t <;> simp [piecePos, pieceRequested] at hi ⊢
  · cases s <;> simp [piecePos, pieceRequested] at hi ⊢

theorem mem_concatPos_iff (n : Nat) (h t : Option Nat) (s : Option (List Nat)) (i : Nat) :
    i ∈ concatPos n h t s ↔ ∃ pc : Piece, i ∈ piecePos n h t s pc := by
  unfold concatPos
  simp only [List.mem_append]
  constructor
  · rintro ((hi | hi) | hi)
    · exact ⟨.head, hi⟩
    · exact ⟨.tail, hi⟩
    · exact ⟨.sample, hi⟩
  · rintro ⟨pc, hi⟩
    cases pc
    · exact Or.inl (Or.inl hi)
    · exact Or.inl (Or.inr hi)
    · exact Or.inr hi

theorem anyOption_iff (h t : Option Nat) (s : Option (List Nat)) :
    anyOption h t s = true ↔ ∃ pc : Piece, pieceRequested h t s pc = true := by
  unfold anyOption
  constructor
  · intro hh
    simp only [Bool.or_eq_true] at hh
    rcases hh with (hh | hh) | hh
    · exact ⟨.head, hh⟩
    · exact ⟨.tail, hh⟩
    · exact ⟨.sample, hh⟩
  · rintro ⟨pc, hp⟩
    cases pc <;> simp [pieceRequested] at hp <;> simp [hp]

theorem covers_mem (p : SubProg) (hc : p.covers = true) (pc : Piece) : pc ∈ p.pieces := by
  unfold SubProg.covers at hc
  simp only [Bool.and_eq_true, List.contains_iff_mem] at hc
  cases pc
  · exact hc.1.1.1
  · exact hc.1.1.2
  · exact hc.1.2

/-- **C20 (a), for every program that reads the three options** (in any order, even repeatedly) and
de-duplicates by an injective key: the validated rows are the requested rows -/
theorem runSub_mem_iff {κ : Type} [BEq κ] [LawfulBEq κ] (p : SubProg) (key : Nat → κ) (n : Nat)
    (h t : Option Nat) (s : Option (List Nat)) (hc : p.covers = true)
    (hs : ∀ ps, s = some ps → ∀ i ∈ ps, i < n)
    (hinj : ∀ i j, i < n → j < n → key i = key j → i = j) (i : Nat) :
    i ∈ runSub p key n h t s ↔ i ∈ requestedPos n h t s := by
  have hwhole : p.wholeWhenNoOption = true := by
    unfold SubProg.covers at hc; simp only [Bool.and_eq_true] at hc; exact hc.2
  -- membership in the concatenation the program builds
  have hcat : ∀ j, j ∈ ((p.pieces.filter (pieceRequested h t s)).map (piecePos n h t s)).flatten
      ↔ j ∈ concatPos n h t s := by
    intro j
    rw [mem_concatPos_iff]
    simp only [List.mem_flatten, List.mem_map, List.mem_filter]
    constructor
    · rintro ⟨l, ⟨pc, _, rfl⟩, hj⟩; exact ⟨pc, hj⟩
    · rintro ⟨pc, hj⟩; exact ⟨_, ⟨pc, ⟨covers_mem p hc pc, mem_piecePos_requested hj⟩, rfl⟩, hj⟩
  have hempty : (p.pieces.filter (pieceRequested h t s)).isEmpty = !anyOption h t s := by
    cases ha : anyOption h t s
    · have : ∀ pc ∈ p.pieces, pieceRequested h t s pc = false := by
        intro pc _
        cases hr : pieceRequested h t s pc
        · rfl
        · have := (anyOption_iff h t s).mpr ⟨pc, hr⟩; rw [ha] at this; cases this
      have hnil : p.pieces.filter (pieceRequested h t s) = [] := by
        rw [List.filter_eq_nil_iff]
        intro a ha'; rw [this a ha']; simp
      rw [hnil]; rfl
    · obtain ⟨pc, hr⟩ := (anyOption_iff h t s).mp ha
      have : pc ∈ p.pieces.filter (pieceRequested h t s) := List.mem_filter.mpr ⟨covers_mem p hc pc, hr⟩
      cases hl : p.pieces.filter (pieceRequested h t s) with
      | nil => rw [hl] at this; cases this
      | cons _ _ => rfl
  unfold runSub requestedPos
  simp only [hempty, hwhole]
  cases ha : anyOption h t s
  · simp
  · simp only [Bool.not_true, Bool.false_eq_true, ↓reduceIte]
    have hlt : ∀ j ∈ ((p.pieces.filter (pieceRequested h t s)).map (piecePos n h t s)).flatten, j < n :=
      fun j hj => concatPos_lt n h t s hs j ((hcat j).mp hj)
    cases hd : p.dedup
    · simp only [Bool.false_eq_true, ↓reduceIte]
      rw [hcat, List.mem_eraseDups]
    · simp only [↓reduceIte]
      have : ((p.pieces.filter (pieceRequested h t s)).map (piecePos n h t s)).flatten.eraseDupsBy
            (fun a b => key a == key b)
          = ((p.pieces.filter (pieceRequested h t s)).map (piecePos n h t s)).flatten.eraseDups := by
        unfold List.eraseDups
        apply eraseDupsBy_congr
        intro a ha' b hb'
        by_cases hab : a = b
        · subst hab; simp
        · have hk : key a ≠ key b := fun hk => hab (hinj a b (hlt a ha') (hlt b hb') hk)
          rw [beq_eq_false_iff_ne.mpr hk, beq_eq_false_iff_ne.mpr hab]
      rw [this, List.mem_eraseDups, List.mem_eraseDups, hcat]

theorem nodup_eraseDups {α : Type} [BEq α] [LawfulBEq α] (l : List α) : l.eraseDups.Nodup := by
  induction hn : l.length using Nat.strongRecOn generalizing l with
  | _ n ih =>
    cases l with
    | nil => simp
    | cons x xs =>
      rw [List.eraseDups_cons, List.nodup_cons]
      have hlen : (xs.filter fun b => !b == x).length < n := by
        subst hn; exact Nat.lt_succ_of_le (List.length_filter_le _ _)
      refine ⟨?_, ih _ hlen _ rfl⟩
      intro hx
      have := (List.mem_filter.mp (List.mem_eraseDups.mp hx)).2
      simp at this

/-- each requested row is requested once -/
theorem requested_nodup (n : Nat) (h t : Option Nat) (s : Option (List Nat)) : (requestedPos n h t s).Nodup := by
  unfold requestedPos
  split
  · exact nodup_eraseDups _
  · exact List.nodup_range

/-- **C20 (a), each row once**: a de-duplicating program validates no row twice -/
theorem runSub_nodup {κ : Type} [BEq κ] [LawfulBEq κ] (p : SubProg) (key : Nat → κ) (n : Nat)
    (h t : Option Nat) (s : Option (List Nat)) (hd : p.dedup = true)
    (hs : ∀ ps, s = some ps → ∀ i ∈ ps, i < n)
    (hinj : ∀ i j, i < n → j < n → key i = key j → i = j) :
    (runSub p key n h t s).Nodup := by
  have hcatlt : ∀ j ∈ ((p.pieces.filter (pieceRequested h t s)).map (piecePos n h t s)).flatten, j < n := by
    intro j hj
    simp only [List.mem_flatten, List.mem_map, List.mem_filter] at hj
    obtain ⟨l, ⟨pc, _, rfl⟩, hj⟩ := hj
    exact concatPos_lt n h t s hs j ((mem_concatPos_iff n h t s j).mpr ⟨pc, hj⟩)
  unfold runSub
  simp only [hd, ↓reduceIte]
  split
  · split
    · exact List.nodup_range
    · simp
  · have : ((p.pieces.filter (pieceRequested h t s)).map (piecePos n h t s)).flatten.eraseDupsBy
          (fun a b => key a == key b)
        = ((p.pieces.filter (pieceRequested h t s)).map (piecePos n h t s)).flatten.eraseDups := by
      unfold List.eraseDups
      apply eraseDupsBy_congr
      intro a ha' b hb'
      by_cases hab : a = b
      · subst hab; simp
      · have hk : key a ≠ key b := fun hk => hab (hinj a b (hcatlt a ha') (hcatlt b hb') hk)
        rw [beq_eq_false_iff_ne.mpr hk, beq_eq_false_iff_ne.mpr hab]
    rw [this]
    exact nodup_eraseDups _

/-- **C20 (a) as one statement**: the validated rows are a rearrangement of the requested rows -/
theorem runSub_perm_requested {κ : Type} [BEq κ] [LawfulBEq κ] (p : SubProg) (key : Nat → κ) (n : Nat)
    (h t : Option Nat) (s : Option (List Nat)) (hd : p.dedup = true) (hc : p.covers = true)
    (hs : ∀ ps, s = some ps → ∀ i ∈ ps, i < n)
    (hinj : ∀ i j, i < n → j < n → key i = key j → i = j) :
    (runSub p key n h t s).Perm (requestedPos n h t s) :=
  (List.perm_ext_iff_of_nodup (runSub_nodup p key n h t s hd hs hinj) (requested_nodup n h t s)).mpr
    (runSub_mem_iff p key n h t s hc hs hinj)

/-- a program that forgets an option validates the wrong rows (here: everything instead of one row) -/
theorem forgotten_option_witness :
    runSub { pieces := [.head, .tail], dedup := true, wholeWhenNoOption := true } id 3 none none (some [1])
      ≠ requestedPos 3 none none (some [1]) := by decide

/-- a program that does not de-duplicate validates a row twice -/
theorem no_dedup_witness :
    ¬ (runSub { pieces := [.head, .tail, .sample], dedup := false, wholeWhenNoOption := true } id 3 (some 2) (some 2) none).Nodup := by
  decide

/-! ## Verdict under the options = verdict on the selected rows -/

theorem names_take (D : Frame) (ps : List Nat) : (D.take ps).names = D.names := by
  unfold Frame.names Frame.take
  simp [List.map_map, Function.comp_def]

theorem hasCol_take (D : Frame) (ps : List Nat) (n : String) : (D.take ps).hasCol n = D.hasCol n := by
  unfold Frame.hasCol; rw [names_take]

theorem targets_take (spec : ColSpec) (D : Frame) (ps : List Nat) : targets spec (D.take ps) = targets spec D := by
  unfold targets; simp only [names_take, hasCol_take]

theorem expandedNames_take (S : Schema) (D : Frame) (ps : List Nat) :
    expandedNames S (D.take ps) = expandedNames S D := by
  unfold expandedNames; simp only [targets_take]

/-- the strict / ordered test is a fact about labels: the same on the whole object and on any selection of rows -/
theorem strictOrdered_take (S : Schema) (D : Frame) (ps : List Nat) :
    strictOrderedErrors S (D.take ps) = strictOrderedErrors S D := by
  unfold strictOrderedErrors; simp only [expandedNames_take, names_take]

/-- so is column presence -/
theorem presence_take (T : ScopeTable) (d : Depth) (S : Schema) (D : Frame) (ps : List Nat) :
    presenceErrors T d S (D.take ps) = presenceErrors T d S D := by
  unfold presenceErrors absentNames; simp only [hasCol_take]

/-- **C20 (verdict)** when uniqueness and the component checks receive the subsample, validating with
the options collects exactly the errors of validating the frame made of the selected rows — whatever
the presence check receives -/
theorem validate_with_options (A : CoreArgs) (T : ScopeTable) (d : Depth) (S : Schema) (D : Frame) (ps : List Nat)
    (hj : A.jointUnique = .sample) (hc : A.components = .sample) :
    frameErrorsWith A T d S D ps = frameErrors T d S (D.take ps) := by
  unfold frameErrorsWith frameErrors coreCheckErrors
  have hp : presenceErrors T d S (pick A.presence D (D.take ps)) = presenceErrors T d S (D.take ps) := by
    cases A.presence <;> simp [pick, presence_take]
  show strictOrderedErrors S D ++ presenceErrors T d S (pick A.presence D (D.take ps))
      ++ jointUniqueErrors T d S (pick A.jointUnique D (D.take ps))
      ++ (S.columns.map (fun c => columnErrors T d c (pick A.components D (D.take ps)))).flatten
      ++ indexPartErrors T d S (pick A.components D (D.take ps)) = _
  rw [hp, hj, hc]
  simp only [pick, strictOrdered_take, List.append_assoc]

/-- **C20 (verdict, with dataframe-level checks)** for **every** dataframe-level check function: when `run_checks`
receives the subsample too, the errors are those of validating the selected rows with the same functions -/
theorem validate_with_options_and_checks (A : CoreArgs) (fcArg : Arg) (fc : Frame → List Err) (T : ScopeTable) (d : Depth)
    (S : Schema) (D : Frame) (ps : List Nat)
    (hj : A.jointUnique = .sample) (hc : A.components = .sample) (hf : fcArg = .sample) :
    frameErrorsWithChecks A fcArg fc T d S D ps = frameErrors T d S (D.take ps) ++ fc (D.take ps) := by
  unfold frameErrorsWithChecks
  rw [validate_with_options A T d S D ps hj hc, hf]
  rfl

/-- handing the whole object to the dataframe-level checks lets a row nobody asked for decide the verdict -/
theorem whole_frame_checks_witness :
    ∃ (fc : Frame → List Err) (T : ScopeTable) (S : Schema) (D : Frame),
      frameErrorsWithChecks ⟨.whole, .sample, .sample⟩ .whole fc T .schemaAndData S D [0]
        ≠ frameErrors T .schemaAndData S (D.take [0]) ++ fc (D.take [0]) :=
  ⟨fun X => if X.nrows > 1 then [{ reason := .dataframeCheck, ctx := .frame, label := none }] else [],
   ⟨none, none, none, none, none, none, none, none, none, none⟩, {},
   { cols := [], index := [⟨none, .int64, [.int 0, .int 1]⟩], nrows := 2 }, by decide⟩

/-- the same for a field (SeriesSchema, Index, polars Column): whatever the name check receives -/
theorem field_with_options (A : FieldArgs) (T : ScopeTable) (d : Depth) (ctx : Ctx) (spec : ColSpec)
    (fn : Option String) (phys : DType) (vals : List Val) (ps : List Nat)
    (hn : A.nullable = .sample) (hu : A.unique = .sample) (hd : A.dtype = .sample) (hk : A.checks = .sample) :
    fieldErrorsWith A T d ctx spec fn phys vals ps = fieldErrors T d ctx spec fn phys (takeVals vals ps) := by
  unfold fieldErrorsWith fieldErrors
  simp only [hn, hu, hd, hk, pickVals]

/-- a table that hands the whole object to the component checks validates rows nobody asked for -/
theorem whole_components_witness :
    ∃ (A : CoreArgs) (T : ScopeTable) (S : Schema) (D : Frame),
      A.jointUnique = .sample ∧
      frameErrorsWith A T .schemaAndData S D [0] ≠ frameErrors T .schemaAndData S (D.take [0]) :=
  ⟨{ presence := .whole, jointUnique := .sample, components := .whole },
   ⟨none, none, none, none, none, none, none, none, none, none⟩,
   { columns := [{ name := some "a", dtype := some .int64 }] },
   { cols := [⟨"a", .int64, [.int 1, .null]⟩], index := [⟨none, .int64, [.int 0, .int 1]⟩], nrows := 2 },
   rfl, by decide⟩

/-- **C20 (a)+(verdict), both backends as they are in the source**: with the program and the table of
the source and distinct keys, `validate(D, head, tail, sample)` collects the errors of validating
`rows_by_position(D, …)` -/
theorem validate_options_eq_selected_rows {κ : Type} [BEq κ] [LawfulBEq κ] (p : SubProg) (tbl : List (CoreCheck × Arg))
    (hp : p = stdProg) (htbl : seeSample tbl [.jointUnique, .components] = true)
    (key : Nat → κ) (T : ScopeTable) (d : Depth) (S : Schema) (D : Frame)
    (h t : Option Nat) (s : Option (List Nat))
    (hs : ∀ ps, s = some ps → ∀ i ∈ ps, i < D.nrows)
    (hinj : ∀ i j, i < D.nrows → j < D.nrows → key i = key j → i = j) :
    frameErrorsWith (CoreArgs.ofTable tbl) T d S D (runSub p key D.nrows h t s)
      = frameErrors T d S (D.take (requestedPos D.nrows h t s)) := by
  subst hp
  rw [runSub_std, kept_eq_requested key D.nrows h t s hs hinj]
  apply validate_with_options
  · simp only [seeSample, List.all_cons, List.all_nil, Bool.and_true, Bool.and_eq_true, beq_iff_eq] at htbl
    exact htbl.1
  · simp only [seeSample, List.all_cons, List.all_nil, Bool.and_true, Bool.and_eq_true, beq_iff_eq] at htbl
    exact htbl.2

/-! ## Per-run obligations on the regenerated program and tables -/

open Generated.SubsampleRules in
theorem source_pandas_subsample : pandasSubsample = stdProg := by decide

open Generated.SubsampleRules in
theorem source_polars_subsample : polarsSubsample = stdProg := by decide

open Generated.SubsampleRules in
/-- every row-dependent core check of the two containers receives the subsample (dataframe-level
checks included: user functions of the object they are handed) -/
theorem source_container_tables :
    (seeSample pandasContainer [.jointUnique, .components, .frameChecks]
      && seeSample polarsContainer [.jointUnique, .components, .frameChecks]
      && wellFormedTable pandasContainer && wellFormedTable polarsContainer) = true := by decide

open Generated.SubsampleRules in
theorem source_field_tables :
    (seeSample pandasArray [.nullable, .unique, .dtype, .checks]
      && seeSample polarsComponent [.nullable, .unique, .dtype, .checks]
      && wellFormedTable pandasArray && wellFormedTable polarsComponent) = true := by decide

open Generated.SubsampleRules in
theorem source_forwards_options : forwards.all id = true := by decide

example : takeVals [.int 1, .int 2, .int 3] [2, 0] = [.int 3, .int 1] := by decide

end C20
end Pandera

import PanderaModel.Props.C01
import PanderaModel.CheckBackend
import PanderaModel.Lemmas.Polars
import PanderaModel.Lemmas.Field
import PanderaModel.Generated.BackendRules
/-!
# C08 — one schema definition means the same on pandas and on polars

* `polars_builtin_eq_docPred`, `builtins_agree`: every built-in check body of the **polars** backend,
  as translated from `backends/polars/builtin_checks.py` on this run, computes the same documented
  predicate as its pandas twin — for all arguments and all values;
* `caretSearch_eq_prefixMatch` / `caret_alternation_witness`: anchoring a pattern by prefixing `^`
  agrees with `re.match` exactly when the pattern has no top-level alternation (the recorded defect
  of the old `str_matches`; the translator tells the two anchoring forms apart);
* `check_elem_agree`: the element verdicts of the two check backends (pandas: drop nulls under
  `ignore_na`, else apply the predicate to the null; polars: null outcome ↦ pass under `ignore_na`,
  else fail) coincide for every predicate that is false on a null, and under `ignore_na` for all
  predicates; `negated_null_witness` is the recorded divergence for `ne` / `notin`;
* `unique_verdict_keep_independent`: whether a column has duplicates does not depend on the
  `report_duplicates` / `is_duplicated` convention (pandas `duplicated(keep=…)`, polars
  `is_duplicated()`), only the reported cells do.

The container pipelines of the two backends are tied to the shared declarative semantics by the
differential correspondence (same specification and rows to both backends, and to Lean's `Sat`).
-/
namespace Pandera
namespace C08
open Pandera.Generated

/-! ## per-run obligations -/

/-- the polars check backend maps a null outcome to "pass" under `ignore_na` and to "fail" otherwise;
`str_matches` anchors the whole pattern -/
theorem backend_rules_ok :
    (BackendRules.polarsIgnoreNaNullPasses && BackendRules.polarsNotIgnoreNaNullFails
     && BackendRules.polarsStrMatchesAnchorsGroup) = true := by decide

/-! ## built-in checks -/

/-- every polars built-in check body computes the documented predicate, for all arguments and values -/
theorem polars_builtin_eq_docPred (b : Builtin) (v : Val) (hv : C01.builtinValid b = true) :
    evalVia polarsBuiltins b v = docPred b v := by
  cases b with
  | eq a => simp [evalVia, lookupCE, polarsBuiltins, Builtin.pyName, Builtin.pyArgs, CE.eval, operandVal, cmpVals, docPred]
  | ne a => simp [evalVia, lookupCE, polarsBuiltins, Builtin.pyName, Builtin.pyArgs, CE.eval, operandVal, cmpVals, docPred]
  | gt a => simp [evalVia, lookupCE, polarsBuiltins, Builtin.pyName, Builtin.pyArgs, CE.eval, operandVal, cmpVals, docPred]
  | ge a => simp [evalVia, lookupCE, polarsBuiltins, Builtin.pyName, Builtin.pyArgs, CE.eval, operandVal, cmpVals, docPred]
  | lt a => simp [evalVia, lookupCE, polarsBuiltins, Builtin.pyName, Builtin.pyArgs, CE.eval, operandVal, cmpVals, docPred]
  | le a => simp [evalVia, lookupCE, polarsBuiltins, Builtin.pyName, Builtin.pyArgs, CE.eval, operandVal, cmpVals, docPred]
  | inRange lo hi il ih =>
    cases il <;> cases ih <;>
      simp [evalVia, lookupCE, polarsBuiltins, Builtin.pyName, Builtin.pyArgs, CE.eval, operandVal, cmpVals, docPred]
  | isin vs => simp [evalVia, lookupCE, polarsBuiltins, Builtin.pyName, Builtin.pyArgs, CE.eval, docPred]
  | notin vs => simp [evalVia, lookupCE, polarsBuiltins, Builtin.pyName, Builtin.pyArgs, CE.eval, docPred]
  | strMatches p => simp [evalVia, lookupCE, polarsBuiltins, Builtin.pyName, Builtin.pyArgs, CE.eval, docPred]
  | strContains p => simp [evalVia, lookupCE, polarsBuiltins, Builtin.pyName, Builtin.pyArgs, CE.eval, docPred]
  | strStartswith s => simp [evalVia, lookupCE, polarsBuiltins, Builtin.pyName, Builtin.pyArgs, CE.eval, docPred]
  | strEndswith s => simp [evalVia, lookupCE, polarsBuiltins, Builtin.pyName, Builtin.pyArgs, CE.eval, docPred]
  | strLength lo hi =>
    cases lo <;> cases hi <;> simp [C01.builtinValid] at hv <;>
      simp [evalVia, lookupCE, polarsBuiltins, Builtin.pyName, Builtin.pyArgs, CE.eval, docPred, optNat, cmpNat] <;>
      cases v <;> simp [strOp, optAnd, Bool.and_comm]

/-- **the two implementations of every built-in check agree** on all arguments and all values -/
theorem builtins_agree (b : Builtin) (v : Val) (hv : C01.builtinValid b = true) :
    evalVia polarsBuiltins b v = evalVia pandasBuiltins b v := by
  rw [polars_builtin_eq_docPred b v hv, C01.pandas_builtin_eq_docPred b v hv]

/-! ## anchoring a pattern -/

/-- a pattern whose top-level constructor is not an alternation -/
def noTopAlt : Pat → Bool
  | .alt _ _ => false
  | _ => true

/-- prefixing `^` anchors the pattern iff it has no top-level alternation -/
theorem caretSearch_eq_prefixMatch (p : Pat) (s : String) (h : noTopAlt p = true) :
    caretSearch p s = p.prefixMatch s := by
  cases p <;> simp_all [caretSearch, noTopAlt]

/-- the recorded defect of `^` + pattern: `a|b` accepts "xb" although `re.match` rejects it -/
theorem caret_alternation_witness :
    caretSearch (.alt (.chr 'a') (.chr 'b')) "xb" = true ∧ (Pat.alt (.chr 'a') (.chr 'b')).prefixMatch "xb" = false := by
  decide

/-! ## the check backends: null handling -/

/-- the polars check backend on one element: the expression yields null on a null value; under
`ignore_na` a null outcome passes, otherwise it fails (`fill_null(False)`) -/
def polarsElemOk (f : Val → Option Bool) (ignoreNa : Bool) (v : Val) : Option Bool :=
  if v.isNull then some ignoreNa else f v

/-- **the element verdicts of the two backends coincide** under `ignore_na` for every predicate, and
without it for every predicate that is false on a missing value -/
theorem check_elem_agree (f : Val → Option Bool) (ignoreNa : Bool) (v : Val)
    (h : ignoreNa = true ∨ v.isNull = false ∨ f v = some false) :
    polarsElemOk f ignoreNa v = elemOk f ignoreNa v := by
  unfold polarsElemOk elemOk
  cases hv : v.isNull <;> cases ignoreNa <;> simp_all

theorem lt_null_right (a : Val) : Val.lt? a .null = some false := by cases a <;> rfl
theorem lt_null_left (a : Val) : Val.lt? .null a = some false := by cases a <;> rfl
theorem le_null_right (a : Val) : Val.le? a .null = some false := by cases a <;> rfl
theorem le_null_left (a : Val) : Val.le? .null a = some false := by cases a <;> rfl

/-- comparisons, membership and the string predicates are false on a missing value … -/
theorem docPred_null_false (b : Builtin) (h : ∀ a, b ≠ .ne a) (h' : ∀ vs, b ≠ .notin vs) (hv : C01.builtinValid b = true) :
    docPred b .null = some false := by
  cases b with
  | ne a => exact absurd rfl (h a)
  | notin vs => exact absurd rfl (h' vs)
  | inRange lo hi il ih =>
    cases il <;> cases ih <;>
      simp [docPred, lt_null_right, lt_null_left, le_null_right, le_null_left, optAnd]
  | strLength lo hi => simp [docPred, strOp]
  | _ => simp [docPred, Val.eqv, lt_null_right, lt_null_left, le_null_right, le_null_left, strOp]

/-- … hence the built-ins agree on nulls with `ignore_na=False` too, except the two negations -/
theorem builtin_elem_agree (b : Builtin) (ignoreNa : Bool) (v : Val) (hv : C01.builtinValid b = true)
    (h : ignoreNa = true ∨ v.isNull = false ∨ ((∀ a, b ≠ .ne a) ∧ ∀ vs, b ≠ .notin vs)) :
    polarsElemOk (docPred b) ignoreNa v = elemOk (docPred b) ignoreNa v := by
  rcases h with h | h | h
  · exact check_elem_agree _ _ _ (Or.inl h)
  · exact check_elem_agree _ _ _ (Or.inr (Or.inl h))
  · cases hn : v.isNull with
    | false => exact check_elem_agree _ _ _ (Or.inr (Or.inl hn))
    | true =>
      have : v = .null := by cases v <;> simp_all [Val.isNull]
      subst this
      exact check_elem_agree _ _ _ (Or.inr (Or.inr (docPred_null_false b h.1 h.2 hv)))

/-- the recorded region `K_C08_negatedOnNull`: `ne` / `notin` with `ignore_na=False` on a missing
value — pandas evaluates `NaN != x` (true), polars has a null outcome (fails) -/
theorem negated_null_witness :
    elemOk (docPred (.ne (.int 3))) false .null = some true
    ∧ polarsElemOk (docPred (.ne (.int 3))) false .null = some false := by decide

/-! ## uniqueness -/

/-- whether values are reported as duplicated at all does not depend on the `keep` convention -/
theorem unique_verdict_keep_independent (k k' : Keep) (xs : List Val) :
    (∀ b ∈ dupMask k xs, b = false) ↔ (∀ b ∈ dupMask k' xs, b = false) := by
  rw [dupMask_allFalse_iff, dupMask_allFalse_iff]

/-! ## the twin container pipelines -/

/-- failure cases of a dtype error are not compared: pandas lists the offending elements of a `str`
column, polars names the physical dtype -/
def normErr (e : Err) : Err := if e.reason == .wrongDatatype then { e with cells := [] } else e

/-- a column specification inside the shared vocabulary, outside the recorded regions -/
structure SharedCol (spec : ColSpec) : Prop where
  noRegex : spec.regex = none
  keepAll : spec.reportDup = .none
  checksOk : ∀ c ∈ spec.checks, c.ignoreNa = true ∨ docPred c.b .null = some false

/-- the dtype step: same verdict; pandas lists elements for `str`, polars does not (normalised away) -/
theorem dtype_agree (label : Option String) (dt : Option DType) (phys : DType) (vals : List Val)
    (hfit : ∀ v ∈ vals, valFits phys v = true) (hK : ∀ t, dt = some t → K_C01_strVacuous t phys vals = false) :
    (Polars.dtypeErrs label dt phys).map normErr = (Pandera.dtypeErrs true .column label dt phys vals).map normErr := by
  unfold Polars.dtypeErrs Pandera.dtypeErrs
  cases dt with
  | none => rfl
  | some t =>
    have := dtypeOkImpl_eq t phys vals hfit (hK t rfl)
    simp only [this, Spec.dtypeOk, Bool.true_and]
    by_cases hq : t = phys
    · simp [hq]
    · have h1 : (t != phys) = true := by simp [hq]
      have h2 : (!(t == phys)) = true := by simp [hq]
      simp only [h1, h2, if_true, List.map_cons, List.map_nil, normErr]
      simp

/-- **one column component means the same on both backends**: the error lists of the polars and the
pandas component pipelines coincide (reason, label, check number and failing cells), for every
scope table at full depth -/
theorem field_agree (T : ScopeTable) (spec : ColSpec) (n : String) (phys : DType) (vals : List Val)
    (hname : spec.name = some n) (hs : SharedCol spec) (hfit : ∀ v ∈ vals, valFits phys v = true)
    (hK : ∀ t, spec.dtype = some t → K_C01_strVacuous t phys vals = false) :
    (Polars.fieldErrors spec n phys vals).map normErr
      = (Pandera.fieldErrors T .schemaAndData .column spec (some n) phys vals).map normErr := by
  unfold Polars.fieldErrors Pandera.fieldErrors
  have hchk := Polars.checksSteps_agree (some n) vals spec.checks hs.checksOk
  have hdt := dtype_agree (some n) spec.dtype phys vals hfit hK
  have hnm : (!(((some n : Option String)).isNone || (some n : Option String) == some n)) = false := by simp
  simp only [optRuns_sad, Bool.true_and, hname, hs.keepAll, hchk, if_true, hnm, Bool.false_eq_true, if_false,
    List.nil_append, List.map_append, hdt]

/-- a schema inside the shared vocabulary: no index component, `report_duplicates="all"`, every column shared -/
structure SharedSchema (S : Schema) : Prop where
  noIndex : S.index = none
  keepAll : S.reportDup = .none
  cols : ∀ spec ∈ S.columns, SharedCol spec

theorem column_agree (T : ScopeTable) (spec : ColSpec) (D : Frame) (hs : SharedCol spec) (hwf : D.WF = true)
    (hK : ∀ n c t, spec.name = some n → D.col? n = some c → spec.dtype = some t →
      K_C01_strVacuous t c.dtype c.vals = false) :
    (Polars.columnErrors spec D).map normErr = (Pandera.columnErrors T .schemaAndData spec D).map normErr := by
  unfold Polars.columnErrors Pandera.columnErrors
  rw [hs.noRegex]
  cases hn : spec.name with
  | none => simp
  | some n =>
    cases hc : D.col? n with
    | none => simp [hc]
    | some c =>
      simp only [hc]
      exact field_agree T spec n c.dtype c.vals hn hs (C01.wf_cols hwf c (col?_mem hc))
        (fun t ht => hK n c t hn hc ht)

theorem map_flatten_congr {α : Type} (l : List α) (f g : α → List Err)
    (h : ∀ x ∈ l, (f x).map normErr = (g x).map normErr) :
    ((l.map f).flatten).map normErr = ((l.map g).flatten).map normErr := by
  induction l with
  | nil => rfl
  | cons x l ih =>
    simp only [List.map_cons, List.flatten_cons, List.map_append]
    rw [h x (by simp), ih (fun y hy => h y (by simp [hy]))]

/-- **the twin container pipelines agree**: for every schema of the shared vocabulary and every
well-formed table, outside the recorded region `K_C01_strVacuous`, the polars pipeline collects
exactly the errors the pandas pipeline collects — same order, reasons, labels, check numbers and
failing cells (the failure cases of dtype errors aside) -/
theorem backends_agree (T : ScopeTable) (S : Schema) (D : Frame) (hs : SharedSchema S) (hwf : D.WF = true)
    (hK : ∀ spec ∈ S.columns, ∀ n c t, spec.name = some n → D.col? n = some c → spec.dtype = some t →
      K_C01_strVacuous t c.dtype c.vals = false) :
    (Polars.frameErrors S D).map normErr = (Pandera.frameErrors T .schemaAndData S D).map normErr := by
  unfold Polars.frameErrors Polars.coreErrors Pandera.frameErrors coreCheckErrors
  have hp : Polars.presenceErrors S D = Pandera.presenceErrors T .schemaAndData S D := by
    unfold Polars.presenceErrors Pandera.presenceErrors; simp
  have hj : Polars.jointUniqueErrors S D = Pandera.jointUniqueErrors T .schemaAndData S D := by
    unfold Polars.jointUniqueErrors Pandera.jointUniqueErrors; simp [hs.keepAll]
  have hi : indexPartErrors T .schemaAndData S D = [] := by
    unfold indexPartErrors; rw [hs.noIndex]
  have hc := map_flatten_congr S.columns (fun c => Polars.columnErrors c D)
    (fun c => Pandera.columnErrors T .schemaAndData c D)
    (fun spec hspec => column_agree T spec D (hs.cols spec hspec) hwf (hK spec hspec))
  rw [hp, hj, hi]
  simp only [List.map_append, List.append_assoc, List.append_nil, List.map_nil, hc]

/-- hence the verdicts agree -/
theorem verdicts_agree (T : ScopeTable) (S : Schema) (D : Frame) (hs : SharedSchema S) (hwf : D.WF = true)
    (hK : ∀ spec ∈ S.columns, ∀ n c t, spec.name = some n → D.col? n = some c → spec.dtype = some t →
      K_C01_strVacuous t c.dtype c.vals = false) :
    Polars.accepts S D = Pandera.accepts T .schemaAndData S D := by
  have h := congrArg List.isEmpty (backends_agree T S D hs hwf hK)
  simpa [Polars.accepts, Pandera.accepts, List.isEmpty_iff] using h

/-- the premises are met by a non-trivial schema and table, and the divergence inside the recorded
region is real: `Column(str)` on an all-null float column -/
example : SharedSchema { columns := [{ name := some "a", dtype := some .int64, unique := true, reportDup := .none,
                                        checks := [{ b := .gt (.int 0) }] }], reportDup := .none } :=
  ⟨rfl, rfl, by intro spec h; simp at h; subst h; exact ⟨rfl, rfl, by intro c hc; simp at hc; subst hc; left; rfl⟩⟩

theorem strVacuous_divergence :
    let S : Schema := { columns := [{ name := some "a", dtype := some .str, nullable := true, reportDup := .none }], reportDup := .none }
    let D : Frame := { cols := [⟨"a", .float64, [.null]⟩], index := [⟨none, .int64, [.int 0]⟩], nrows := 1 }
    Polars.accepts S D = false ∧ Pandera.accepts ⟨none, none, none, none, none, none, none, none, none, none⟩ .schemaAndData S D = true := by
  decide

end C08
end Pandera

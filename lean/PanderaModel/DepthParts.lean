import PanderaModel.Pandas
/-!
# The schema-level and the data-level part of a schema

Definitions only (used by the C18 theorems and by the C18 driver; kept apart from the property file so
that the driver does not depend on the per-run proof obligations).
-/
namespace Pandera
namespace C18

def ColSpec.schemaPart (s : ColSpec) : ColSpec := { s with unique := false, checks := [] }

def Schema.schemaPart (S : Schema) : Schema :=
  { S with columns := S.columns.map ColSpec.schemaPart, index := S.index.map ColSpec.schemaPart,
           unique := [] }

def ColSpec.dataPart (s : ColSpec) : ColSpec := { s with nullable := true, dtype := none, required := false }

def Schema.dataPart (S : Schema) : Schema :=
  { S with columns := S.columns.map ColSpec.dataPart,
           index := S.index.map (fun ix => { ColSpec.dataPart ix with name := none }),
           strict := .no, ordered := false }

end C18
end Pandera

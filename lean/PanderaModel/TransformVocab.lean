import PanderaModel.Transform
import PanderaModel.Generated.ColumnProps
/-! The attribute vocabularies of the working tree (regenerated tables) -/
namespace Pandera.Transform
open Pandera.Generated.ColumnProps

def pandasVocab : Vocab :=
  { colCtor := pandasColumnCtor, colVarKw := false,
    idxCtor := componentCtor,
    colProps := pandasColumnProps,
    setIdxKw := setIndexKw, resetIdxKw := resetIndexKw,
    miDefaults := [("coerce", "False"), ("strict", "False"), ("name", "None"), ("ordered", "True"), ("unique", "None")] }

def polarsVocab : Vocab :=
  { pandasVocab with colCtor := polarsColumnCtor, colVarKw := polarsColumnVarKw, colProps := polarsColumnProps }

/-- every constructor parameter is read back from the attribute of the same name -/
def covers (ctor table : List (String × String)) : Bool := ctor.all fun p => table.contains (p.1, p.1)

/-- what `update_column(s)` needs of the vocabulary -/
def Vocab.wfUpdate (V : Vocab) : Bool :=
  decide (keys V.colCtor).Nodup && decide (keys V.colProps).Nodup && covers V.colCtor V.colProps

/-- what `set_index` / `reset_index` need: every Index parameter is copied both ways, and the Index
parameters are Column parameters with the same defaults -/
def Vocab.wfIndex (V : Vocab) : Bool :=
  decide (keys V.colCtor).Nodup && decide (keys V.idxCtor).Nodup
  && decide (keys V.setIdxKw).Nodup && decide (keys V.resetIdxKw).Nodup
  && covers V.idxCtor V.setIdxKw && covers V.idxCtor V.resetIdxKw
  && V.idxCtor.all (fun p => V.colCtor.contains p)
  && V.resetIdxKw.all (fun p => (keys V.idxCtor).contains p.1 && p.1 == p.2)
  && V.setIdxKw.all (fun p => (keys V.idxCtor).contains p.1 && p.1 == p.2)

end Pandera.Transform

import PanderaModel.Checks
/-!
# Schemas, options, error records
-/
namespace Pandera

/-- schema component (Column / Index level / SeriesSchema): mirrors the constructor
arguments the declarative vocabulary uses -/
structure ColSpec where
  name : Option String := none
  regex : Option Pat := none          -- `some p` when `regex=True`; `name` is then the rendered text
  dtype : Option DType := none
  nullable : Bool := false
  unique : Bool := false
  required : Bool := true
  coerce : Bool := false
  reportDup : Keep := .first           -- report_duplicates: exclude_first ↦ keep="first" …
  checks : List CheckSpec := []
  default : Option Val := none         -- `default=`: fill value for nulls (a parsing option)
  deriving Repr, DecidableEq, Inhabited

inductive Strict | no | yes | filter
  deriving Repr, DecidableEq, Inhabited

structure Schema where
  columns : List ColSpec := []
  index : Option ColSpec := none
  strict : Strict := .no
  ordered : Bool := false
  unique : List String := []           -- joint uniqueness (one list); `[]` = not set
  reportDup : Keep := .first
  coerce : Bool := false               -- parsing options
  addMissing : Bool := false
  dropInvalid : Bool := false
  deriving Repr, DecidableEq, Inhabited

inductive Depth | schemaAndData | schemaOnly | dataOnly
  deriving Repr, DecidableEq, Inhabited

inductive Scope | schema | data
  deriving Repr, DecidableEq, Inhabited

/-- does a core check of scope `s` run at depth `d`?  (`validate_scope`) -/
def Scope.runs (s : Scope) (d : Depth) : Bool :=
  match s, d with
  | .schema, .dataOnly => false
  | .data, .schemaOnly => false
  | _, _ => true

/-- scope decoration of each core check; `none` = not decorated (always runs).
Regenerated from the source into `Generated/ScopeMap.lean`. -/
structure ScopeTable where
  colNamesUnique : Option Scope
  colPresence : Option Scope
  jointUnique : Option Scope
  frameChecks : Option Scope
  fieldName : Option Scope
  fieldNullable : Option Scope
  fieldUnique : Option Scope
  fieldDtype : Option Scope
  fieldChecks : Option Scope      -- ArraySchemaBackend.run_checks (Series, Index)
  columnChecks : Option Scope     -- ColumnBackend.run_checks (columns of a DataFrameSchema)
  deriving Repr, DecidableEq, Inhabited

def optRuns (s : Option Scope) (d : Depth) : Bool :=
  match s with
  | none => true
  | some s => s.runs d

inductive Reason
  | columnNotInSchema | columnNotOrdered | columnNotInDataframe | duplicates
  | wrongFieldName | seriesContainsNulls | seriesContainsDuplicates | wrongDatatype
  | dataframeCheck | checkError | invalidColumnName | mismatchIndex | datatypeCoercion
  | addMissingNoDefault
  deriving Repr, DecidableEq, Inhabited

/-- which part of the schema an error speaks about -/
inductive Ctx | frame | column | index | series
  deriving Repr, DecidableEq, Inhabited

/-- one reported failure case: (column, row position, value) -/
structure Cell where
  col : Option String
  pos : Nat
  val : Val
  deriving Repr, DecidableEq, Inhabited

structure Err where
  reason : Reason
  ctx : Ctx
  label : Option String        -- column label / index name the error is about
  checkIx : Option Nat := none
  cells : List Cell := []          -- row-level failure cases
  deriving Repr, DecidableEq, Inhabited

end Pandera

/-!
# One step list, two handlers

`ErrorHandler.collect_error` either raises at once (`lazy=False`) or appends
(`lazy=True`).  A validation run is a list of steps, each inspecting the current
state and yielding a new state together with the errors it found (a step that
fails leaves the state as it was, e.g. a failed coercion).  The two handlers are
related once and for all, for every step list.
-/
namespace Pandera

abbrev Step (σ ε : Type) := σ → σ × List ε

def runLazy {σ ε : Type} : List (Step σ ε) → σ → σ × List ε
  | [], s => (s, [])
  | f :: fs, s =>
    let r := f s
    let r' := runLazy fs r.1
    (r'.1, r.2 ++ r'.2)

def runEager {σ ε : Type} : List (Step σ ε) → σ → Except ε σ
  | [], s => .ok s
  | f :: fs, s =>
    match f s with
    | (s', []) => runEager fs s'
    | (_, e :: _) => .error e

theorem eager_ok_iff_lazy_no_errors {σ ε : Type} (fs : List (Step σ ε)) (s : σ) :
    (∃ s', runEager fs s = .ok s') ↔ (runLazy fs s).2 = [] := by
  induction fs generalizing s with
  | nil => simp [runEager, runLazy]
  | cons f fs ih =>
    simp only [runEager, runLazy]
    rcases h : f s with ⟨s', es⟩
    cases es with
    | nil => simpa using ih s'
    | cons e es => simp

theorem eager_ok_state_eq_lazy {σ ε : Type} (fs : List (Step σ ε)) (s s' : σ)
    (h : runEager fs s = .ok s') : (runLazy fs s).1 = s' := by
  induction fs generalizing s with
  | nil => simp [runEager] at h; simp [runLazy, h]
  | cons f fs ih =>
    simp only [runEager, runLazy] at *
    rcases hf : f s with ⟨s1, es⟩
    rw [hf] at h
    cases es with
    | nil => simpa using ih s1 h
    | cons e es => simp at h

theorem eager_error_is_head_of_lazy {σ ε : Type} (fs : List (Step σ ε)) (s : σ) (e : ε)
    (h : runEager fs s = .error e) : (runLazy fs s).2.head? = some e := by
  induction fs generalizing s with
  | nil => simp [runEager] at h
  | cons f fs ih =>
    simp only [runEager, runLazy] at *
    rcases hf : f s with ⟨s', es⟩
    rw [hf] at h
    cases es with
    | nil => simpa using ih s' h
    | cons e' es => simp at h; simp [h]

theorem eager_error_mem_lazy {σ ε : Type} (fs : List (Step σ ε)) (s : σ) (e : ε)
    (h : runEager fs s = .error e) : e ∈ (runLazy fs s).2 :=
  List.mem_of_mem_head? (eager_error_is_head_of_lazy fs s e h)

/-- a pure check (no state change) as a step -/
def checkStepOf {σ ε : Type} (g : σ → List ε) : Step σ ε := fun s => (s, g s)

theorem runLazy_checks {σ ε : Type} (gs : List (σ → List ε)) (s : σ) :
    runLazy (gs.map checkStepOf) s = (s, (gs.map (fun g => g s)).flatten) := by
  induction gs with
  | nil => simp [runLazy]
  | cons g gs ih => simp [runLazy, checkStepOf, ih]

end Pandera

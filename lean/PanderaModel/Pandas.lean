import PanderaModel.Schema
/-!
# The pandas validation pipeline (no parsing options)

Shaped like `backends/pandas/{array,components,container}.py`: every core check is
a step producing a list of errors; the eager handler raises the first error, the
lazy handler collects them all (`Errors.lean` proves the generic relation).
-/
namespace Pandera

/-- `schema.dtype.check(Engine.dtype(obj.dtype), obj)` on the abstract universe.
For `str` the engine's check is element-wise (`isinstance(x, str) | isna`), every
other dtype compares the physical dtype. Returns the failing positions for the
element-wise form. -/
def dtypeFailPositions (vals : List Val) : List Nat :=
  vals.zipIdx.filterMap (fun p => if p.1.isNull || p.1.kind? == some .str then none else some p.2)

def dtypeOkImpl (t : DType) (phys : DType) (vals : List Val) : Bool :=
  if t == .str then (dtypeFailPositions vals).isEmpty else t == phys

/-- cells (position, value) of a column at the given positions -/
def cellsAt (col : Option String) (vals : List Val) (ps : List Nat) : List Cell :=
  ps.map (fun i => ⟨col, i, vals.getD i .null⟩)

/-- `reshape_failure_cases(..., ignore_na=True)` drops null failure cases.  The code also applies
it to the uniqueness reports, which loses duplicated nulls (recorded finding
`K_C02_nullDuplicates`); the model reports them, as the property demands. -/
def dropNullCells (cs : List Cell) : List Cell := cs.filter (fun c => !c.val.isNull)

/-- `ArraySchemaBackend.run_checks` for one check -/
def checkStep (ctx : Ctx) (label : Option String) (vals : List Val) (ix : Nat) (c : CheckSpec) : List Err :=
  match runCheck c vals with
  | .raised => [{ reason := .checkError, ctx, label, checkIx := some ix }]
  | .fails [] => []
  | .fails ps =>
    [{ reason := .dataframeCheck, ctx, label, checkIx := some ix,
       cells := if c.ignoreNa then dropNullCells (cellsAt label vals ps) else cellsAt label vals ps }]

def checksSteps (ctx : Ctx) (label : Option String) (vals : List Val) (cs : List CheckSpec) : List Err :=
  (cs.zipIdx.map (fun p => checkStep ctx label vals p.2 p.1)).flatten

/-- `check_dtype` -/
def dtypeErrs (runs : Bool) (ctx : Ctx) (label : Option String) (dt : Option DType) (phys : DType)
    (vals : List Val) : List Err :=
  match dt with
  | none => []
  | some t =>
    if runs && !dtypeOkImpl t phys vals then
      [{ reason := .wrongDatatype, ctx, label,
         cells := if t == .str then cellsAt label vals (dtypeFailPositions vals) else [] }] else []

/-- `ArraySchemaBackend.run_checks_and_handle_errors`: name, nullable, unique,
dtype, checks — in that order, each gated by its scope. -/
def fieldErrors (T : ScopeTable) (d : Depth) (ctx : Ctx) (spec : ColSpec)
    (fieldName : Option String) (phys : DType) (vals : List Val) : List Err :=
  let label := fieldName
  let eName : List Err :=
    if optRuns T.fieldName d && !(spec.name.isNone || spec.name == fieldName) then
      [{ reason := .wrongFieldName, ctx, label }] else []
  let nullPos := truePositions (vals.map Val.isNull)
  let eNull : List Err :=
    if optRuns T.fieldNullable d && !spec.nullable && !nullPos.isEmpty then
      [{ reason := .seriesContainsNulls, ctx, label, cells := cellsAt label vals nullPos }] else []
  let dupPos := truePositions (dupMask spec.reportDup vals)
  let eUniq : List Err :=
    if optRuns T.fieldUnique d && spec.unique && !dupPos.isEmpty then
      [{ reason := .seriesContainsDuplicates, ctx, label, cells := cellsAt label vals dupPos }] else []
  let eDtype : List Err := dtypeErrs (optRuns T.fieldDtype d) ctx label spec.dtype phys vals
  let eChecks : List Err :=
    if optRuns (if ctx == .column then T.columnChecks else T.fieldChecks) d then
      checksSteps ctx label vals spec.checks else []
  eName ++ eNull ++ eUniq ++ eDtype ++ eChecks

/-- labels a column spec applies to (`get_regex_columns` / `[schema.name]`) -/
def targets (spec : ColSpec) (D : Frame) : List String :=
  match spec.regex with
  | some p => D.names.filter (fun n => p.prefixMatch n)
  | none => match spec.name with
    | some n => if D.hasCol n then [n] else []
    | none => []

/-- `collect_column_info`: required non-regex columns missing from the frame -/
def absentNames (S : Schema) (D : Frame) : List String :=
  S.columns.filterMap (fun c =>
    match c.regex, c.name with
    | none, some n => if c.required && !D.hasCol n then some n else none
    | _, _ => none)

/-- `column_info.expanded/sorted_column_names`: all target labels in schema order, first
occurrence kept -/
def expandedNames (S : Schema) (D : Frame) : List String :=
  (S.columns.map (fun c => targets c D)).flatten.eraseDups

/-- `strict_filter_columns` (strict=True / ordered): raises at the first offending
label.  The cursor over the sorted names advances on every schema column. -/
def strictOrderedAux (strict : Bool) (ordered : Bool) (expanded : List String) :
    List String → List String → Option Err
  | [], _ => none
  | c :: rest, sorted =>
    let isSchemaCol := expanded.contains c
    if strict && !isSchemaCol then
      some { reason := .columnNotInSchema, ctx := .frame, label := some c }
    else if ordered && isSchemaCol then
      match sorted with
      | [] => some { reason := .columnNotOrdered, ctx := .frame, label := some c }
      | s :: sorted' =>
        if s != c then some { reason := .columnNotOrdered, ctx := .frame, label := some c }
        else strictOrderedAux strict ordered expanded rest sorted'
    else strictOrderedAux strict ordered expanded rest sorted

def strictOrderedErrors (S : Schema) (D : Frame) : List Err :=
  if S.strict == .yes || S.ordered then
    (strictOrderedAux (S.strict == .yes) S.ordered (expandedNames S D) D.names (expandedNames S D)).toList
  else []

def presenceErrors (T : ScopeTable) (d : Depth) (S : Schema) (D : Frame) : List Err :=
  if optRuns T.colPresence d then
    (absentNames S D).map (fun n => { reason := .columnNotInDataframe, ctx := .frame, label := some n })
  else []

/-- `check_column_values_are_unique` -/
def jointUniqueErrors (T : ScopeTable) (d : Depth) (S : Schema) (D : Frame) : List Err :=
  if optRuns T.jointUnique d && !S.unique.isEmpty then
    let subset := S.unique.filter D.hasCol
    let cols := subset.filterMap D.col?
    -- none of the columns is present: nothing to compare (absent columns are the presence check's business)
    if cols.isEmpty then [] else
    let rows := rowsOf D.nrows (cols.map (·.vals))
    let dupPos := truePositions (dupRowMask S.reportDup rows)
    if dupPos.isEmpty then [] else
      [{ reason := .duplicates, ctx := .frame, label := none,
         cells := (cols.map (fun c => cellsAt (some c.name) c.vals dupPos)).flatten }]
  else []

/-- the rows of a frame over the present columns of one uniqueness group -/
def groupRows (g : List String) (D : Frame) : List (List Val) :=
  rowsOf D.nrows (((g.filter D.hasCol).filterMap D.col?).map (·.vals))

/-- `check_column_values_are_unique` with **several** groups (`unique=[["a","b"],["c"]]`): the groups
are examined in declaration order, a group none of whose columns is present constrains nothing, and
every group with repeated rows is reported (present columns of the group, offending positions); the
eager handler raises the first -/
def dupGroups (keep : Keep) (groups : List (List String)) (D : Frame) : List (List String × List Nat) :=
  groups.filterMap (fun g =>
    if (g.filter D.hasCol).isEmpty then none else
      let dup := truePositions (dupRowMask keep (groupRows g D))
      if dup.isEmpty then none else some (g.filter D.hasCol, dup))

/-- `ColumnBackend.validate` for one column spec, as called from
`run_schema_component_checks` -/
def columnErrors (T : ScopeTable) (d : Depth) (spec : ColSpec) (D : Frame) : List Err :=
  match spec.regex with
  | some _ =>
    match targets spec D with
    | [] => if spec.required then [{ reason := .invalidColumnName, ctx := .column, label := spec.name }] else []
    | ts =>
      (ts.map (fun n => match D.col? n with
        | some c => fieldErrors T d .column { spec with name := some n } (some n) c.dtype c.vals
        | none => [])).flatten
  | none =>
    match spec.name with
    | none => []
    | some n => match D.col? n with
      | some c => fieldErrors T d .column spec (some n) c.dtype c.vals
      | none => []        -- absent: skipped here, reported by the presence check

/-- errors of an index component are reported under the schema component's name -/
def relabel (l : Option String) (es : List Err) : List Err :=
  es.map (fun e => { e with label := l, cells := e.cells.map (fun c => { c with col := l }) })

/-- `IndexBackend.validate` on a single-level index -/
def indexErrors (T : ScopeTable) (d : Depth) (spec : ColSpec) (D : Frame) : List Err :=
  match D.index with
  | [l] => relabel spec.name (fieldErrors T d .index spec l.name l.dtype l.vals)
  | _ => [{ reason := .mismatchIndex, ctx := .index, label := spec.name }]

def indexPartErrors (T : ScopeTable) (d : Depth) (S : Schema) (D : Frame) : List Err :=
  match S.index with
  | some ix => indexErrors T d ix D
  | none => []

/-- the core checks proper (everything but the strict/ordered test, which the code performs inside
a parser) -/
def coreCheckErrors (T : ScopeTable) (d : Depth) (S : Schema) (D : Frame) : List Err :=
  presenceErrors T d S D
  ++ jointUniqueErrors T d S D
  ++ (S.columns.map (fun c => columnErrors T d c D)).flatten
  ++ indexPartErrors T d S D

/-- the lazy error list of `DataFrameSchema.validate`, in collection order -/
def frameErrors (T : ScopeTable) (d : Depth) (S : Schema) (D : Frame) : List Err :=
  strictOrderedErrors S D ++ coreCheckErrors T d S D

/-- verdict under the eager handler: the first error is raised -/
def eagerError (T : ScopeTable) (d : Depth) (S : Schema) (D : Frame) : Option Err :=
  (frameErrors T d S D).head?

def accepts (T : ScopeTable) (d : Depth) (S : Schema) (D : Frame) : Bool :=
  (frameErrors T d S D).isEmpty

/-- `SeriesSchema.validate` (values, then the index schema) on a one-column frame -/
def seriesErrors (T : ScopeTable) (d : Depth) (spec : ColSpec) (ix : Option ColSpec)
    (seriesName : Option String) (D : Frame) : List Err :=
  (match D.cols with
   | [c] => fieldErrors T d .series spec seriesName c.dtype c.vals
   | _ => [])
  ++ (match ix with | some i => indexErrors T d i D | none => [])

end Pandera

/-!
# Container kind through the polars `validate` entry points

`DataFrameSchema.validate` / `Column.validate` of the polars API turn a `pl.DataFrame` into a
`pl.LazyFrame` before they call the backend and collect the result afterwards.  The property (C04)
says the caller gets back the kind it passed in.  The entry points are translated on every run
(`/verif/extract/kind_programs.py`) into programs over the *kinds* of the local variables; `run`
executes such a program for a given input kind and for validation switched on or off.

Modelled, not verified: `LazyFrame.lazy()` is a LazyFrame, `DataFrame.lazy()` is a LazyFrame,
`LazyFrame.collect()` is a DataFrame, a DataFrame has no `collect` (error); the backend hands back
the kind it was given (checked by the differential of C04 on every run).
-/
namespace Pandera.KindM

inductive K | df | lf
  deriving Repr, DecidableEq, Inhabited

inductive KStmt
  | skip
  | setFlag (src : Nat)            -- is_dataframe = isinstance(src, pl.DataFrame)
  | lazy (d s : Nat)               -- d = s.lazy()
  | collect (d s : Nat)            -- d = s.collect()
  | backend (d s : Nat)            -- d = backend.validate(s, …)
  | assign (d s : Nat)             -- d = s
  | ifFlag (a b : KStmt)           -- if is_dataframe: a else: b
  | ifDisabledRet (v : Nat)        -- if not validation_enabled: return v
  | ret (v : Nat)                  -- return v
  | seq (a b : KStmt)
  | unknown                        -- a statement the translator does not recognise
  deriving Repr, DecidableEq, Inhabited

structure St where
  env : Nat → K
  flag : Option Bool               -- `none` until `is_dataframe` is assigned

inductive Res
  | cont (s : St)
  | returned (k : K)
  | error
  | fellThrough                    -- end of the function without `return`: None

def upd (f : Nat → K) (i : Nat) (v : K) : Nat → K := fun j => if j = i then v else f j

def run (enabled : Bool) : KStmt → St → Res
  | .skip, s => .cont s
  | .setFlag v, s => .cont { s with flag := some (s.env v == .df) }
  | .lazy d _, s => .cont { s with env := upd s.env d .lf }
  | .collect d v, s => match s.env v with
      | .lf => .cont { s with env := upd s.env d .df }
      | .df => .error
  | .backend d v, s => .cont { s with env := upd s.env d (s.env v) }
  | .assign d v, s => .cont { s with env := upd s.env d (s.env v) }
  | .ifFlag a b, s => match s.flag with
      | some true => run enabled a s
      | some false => run enabled b s
      | none => .error
  | .ifDisabledRet v, s => if enabled then .cont s else .returned (s.env v)
  | .ret v, s => .returned (s.env v)
  | .seq a b, s => match run enabled a s with
      | .cont s' => run enabled b s'
      | r => r
  | .unknown, _ => .error

/-- the result of calling the entry point on an object of kind `k` (the data parameter is variable 0) -/
def call (p : KStmt) (enabled : Bool) (k : K) : Option K :=
  match run enabled p ⟨fun _ => k, none⟩ with
  | .returned k' => some k'
  | _ => none

/-- the entry point preserves the container kind: both kinds, validation on and off -/
def preservesKind (p : KStmt) : Bool :=
  [true, false].all (fun e => [K.df, K.lf].all (fun k => call p e k == some k))

theorem preservesKind_sound (p : KStmt) (h : preservesKind p = true) (enabled : Bool) (k : K) :
    call p enabled k = some k := by
  simp only [preservesKind, List.all_cons, List.all_nil, Bool.and_true, Bool.and_eq_true, beq_iff_eq] at h
  cases enabled <;> cases k <;> simp [h]

/-- what the backend is handed: the kind of the argument of every `backend` statement executed -/
def backendArgs (enabled : Bool) : KStmt → St → List K × Res
  | .backend d v, s => ([s.env v], .cont { s with env := upd s.env d (s.env v) })
  | .ifFlag a b, s => match s.flag with
      | some true => backendArgs enabled a s
      | some false => backendArgs enabled b s
      | none => ([], .error)
  | .seq a b, s => match backendArgs enabled a s with
      | (ks, .cont s') => let r := backendArgs enabled b s'; (ks ++ r.1, r.2)
      | r => r
  | p, s => ([], run enabled p s)

/-- the backend only ever sees LazyFrames, and is called when validation is enabled -/
def backendSeesLazy (p : KStmt) : Bool :=
  [K.df, K.lf].all (fun k =>
    let r := backendArgs true p ⟨fun _ => k, none⟩
    r.1.all (· == .lf) && !r.1.isEmpty)

end Pandera.KindM

import PanderaModel.Schema
/-!
# Declarative semantics of a schema (what the documentation says)

`Sat S D` is written with quantifiers over columns, labels and values only; it does
not mention steps, handlers, scopes or error records.
-/
namespace Pandera
namespace Spec

/-- labels a column declaration speaks about -/
def matched (spec : ColSpec) (D : Frame) : List String :=
  match spec.regex with
  | some p => D.names.filter (fun n => p.prefixMatch n)
  | none => match spec.name with
    | some n => if D.hasCol n then [n] else []
    | none => []

/-- every label declared or matched by the schema, in schema order -/
def declared (S : Schema) (D : Frame) : List String :=
  (S.columns.map (fun c => matched c D)).flatten.eraseDups

/-- a value satisfies a check (nulls are skipped under `ignore_na`) -/
def valOk (c : CheckSpec) (v : Val) : Bool :=
  (c.ignoreNa && v.isNull) || docPred c.b v == some true

/-- the column has the declared dtype -/
def dtypeOk (t : DType) (phys : DType) : Bool := t == phys

/-- values pairwise distinct, nulls counting as equal to each other -/
def distinct (vals : List Val) : Prop := vals.Pairwise (fun a b => Val.same a b = false)

instance (vals : List Val) : Decidable (distinct vals) := by unfold distinct; infer_instance

/-- one physical field satisfies a component declaration -/
def fieldOk (spec : ColSpec) (fieldName : Option String) (phys : DType) (vals : List Val) : Prop :=
  (spec.name = none ∨ spec.name = fieldName)
  ∧ (spec.nullable = true ∨ ∀ v ∈ vals, v.isNull = false)
  ∧ (spec.unique = true → distinct vals)
  ∧ (∀ t, spec.dtype = some t → dtypeOk t phys = true)
  ∧ (∀ c ∈ spec.checks, ∀ v ∈ vals, valOk c v = true)

instance (spec : ColSpec) (fn : Option String) (phys : DType) (vals : List Val) :
    Decidable (fieldOk spec fn phys vals) := by unfold fieldOk; infer_instance

def rowsDistinct (rows : List (List Val)) : Prop := rows.Pairwise (fun a b => sameRow a b = false)

instance (rows : List (List Val)) : Decidable (rowsDistinct rows) := by
  unfold rowsDistinct; infer_instance

/-- the declared labels that are present appear in schema order -/
def inOrder (S : Schema) (D : Frame) : Prop :=
  D.names.filter (fun n => (declared S D).contains n) = declared S D

def columnSat (spec : ColSpec) (D : Frame) : Prop :=
  match spec.regex with
  | some _ =>
    (spec.required = true → matched spec D ≠ [])
    ∧ ∀ n ∈ matched spec D, ∀ c, D.col? n = some c →
        fieldOk { spec with name := some n } (some n) c.dtype c.vals
  | none =>
    match spec.name with
    | none => True
    | some n =>
      (spec.required = true → D.hasCol n = true)
      ∧ ∀ c, D.col? n = some c → fieldOk spec (some n) c.dtype c.vals

instance (D : Frame) (n : String) (P : Column → Prop) [∀ c, Decidable (P c)] :
    Decidable (∀ c, D.col? n = some c → P c) :=
  match h : D.col? n with
  | none => isTrue (by intro c hc; cases hc)
  | some c0 =>
    if hp : P c0 then isTrue (by intro c hc; cases hc; exact hp)
    else isFalse (fun hall => hp (hall c0 rfl))

instance (spec : ColSpec) (D : Frame) : Decidable (columnSat spec D) := by
  unfold columnSat; split
  · infer_instance
  · split <;> infer_instance

def indexSat (spec : ColSpec) (D : Frame) : Prop :=
  ∃ l, D.index = [l] ∧ fieldOk spec l.name l.dtype l.vals

instance (spec : ColSpec) (D : Frame) : Decidable (indexSat spec D) := by
  unfold indexSat
  match h : D.index with
  | [l] =>
    by_cases hf : fieldOk spec l.name l.dtype l.vals
    · exact isTrue ⟨l, rfl, hf⟩
    · exact isFalse (by rintro ⟨l', hl, hf'⟩; cases hl; exact hf hf')
  | [] => exact isFalse (by rintro ⟨l', hl, _⟩; cases hl)
  | _ :: _ :: _ => exact isFalse (by rintro ⟨l', hl, _⟩; cases hl)

/-- `D ⊨ S` -/
def Sat (S : Schema) (D : Frame) : Prop :=
  (∀ spec ∈ S.columns, columnSat spec D)
  ∧ (S.strict = .yes → ∀ n ∈ D.names, (declared S D).contains n = true)
  ∧ (S.ordered = true → inOrder S D)
  ∧ (S.unique ≠ [] → (S.unique.filter D.hasCol).filterMap D.col? ≠ [] →
      rowsDistinct (rowsOf D.nrows (((S.unique.filter D.hasCol).filterMap D.col?).map (·.vals))))
  ∧ (∀ ix, S.index = some ix → indexSat ix D)

instance (S : Schema) (D : Frame) : Decidable (Sat S D) := by unfold Sat inOrder; infer_instance

end Spec
end Pandera

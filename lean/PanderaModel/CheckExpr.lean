import PanderaModel.Checks
/-!
# Expression IR for the bodies of the built-in check functions

`/verif/extract/builtin_checks.py` translates `backends/pandas/builtin_checks.py`
(and the polars twin) into this IR on every run; `Props/C01.lean` proves each
generated expression equal to the documented predicate for all arguments and values.
The evaluation rules are the element-wise semantics of the pandas operations the
bodies use (`==`, `<`, `isin`, `.str.*(…, na=False)`, `&`, `~`) on the abstract universe.
-/
namespace Pandera

inductive Operand
  | data
  | arg (name : String)
  deriving Repr, DecidableEq, Inhabited

inductive CmpOp | eq | ne | lt | le | gt | ge
  deriving Repr, DecidableEq, Inhabited

inductive CE
  | cmp (op : CmpOp) (l r : Operand)
  | and (a b : CE)
  | or (a b : CE)
  | not (a : CE)
  | isin (arg : String)
  | strMatch (arg : String)
  | strMatchCaret (arg : String)                -- polars: `str.contains("^" + pattern)`
  | strContains (arg : String)
  | strStartswith (arg : String)
  | strEndswith (arg : String)
  | strLenCmp (op : CmpOp) (arg : String)      -- `data.str.len() op arg`
  | ifNone (args : List String) (t e : CE)     -- `if a is None and b is None: t else: e`
  | ifFlag (arg : String) (t e : CE)           -- a Python conditional on a boolean argument
  | raise
  | unsupported
  deriving Repr, DecidableEq, Inhabited

inductive ArgVal
  | none
  | val (v : Val)
  | vals (vs : List Val)
  | pat (p : Pat)
  | str (s : String)
  | nat (n : Nat)
  | flag (b : Bool)
  deriving Repr, DecidableEq, Inhabited

abbrev Args := String → ArgVal

def cmpVals (op : CmpOp) (a b : Val) : Option Bool :=
  match op with
  | .eq => some (Val.eqv a b)
  | .ne => some (!Val.eqv a b)
  | .lt => Val.lt? a b
  | .le => Val.le? a b
  | .gt => Val.lt? b a
  | .ge => Val.le? b a

def cmpNat (op : CmpOp) (a b : Nat) : Bool :=
  match op with
  | .eq => a == b | .ne => a != b | .lt => a < b | .le => a ≤ b | .gt => b < a | .ge => b ≤ a

def operandVal (args : Args) (v : Val) : Operand → Option Val
  | .data => some v
  | .arg n => match args n with | .val x => some x | _ => Option.none

/-- searching for `"^" ++ p`: the caret binds tighter than a top-level alternation, so only the first
alternative is anchored at the start and the others are searched for anywhere -/
def caretSearch : Pat → String → Bool
  | .alt a b, s => caretSearch a s || b.search s
  | p, s => p.prefixMatch s

def CE.eval (args : Args) (v : Val) : CE → Option Bool
  | .cmp op l r =>
    match operandVal args v l, operandVal args v r with
    | some a, some b => cmpVals op a b
    | _, _ => Option.none
  | .and a b => optAnd (a.eval args v) (b.eval args v)
  | .or a b =>
    match a.eval args v, b.eval args v with
    | some x, some y => some (x || y)
    | _, _ => Option.none
  | .not a => (a.eval args v).map (!·)
  | .isin n => match args n with | .vals vs => some (vs.any (Val.eqv v)) | _ => Option.none
  | .strMatch n => match args n with
    | .pat p => strOp (fun s => p.prefixMatch s) v
    | _ => Option.none
  | .strContains n => match args n with
    | .pat p => strOp (fun s => p.search s) v
    | _ => Option.none
  | .strMatchCaret n => match args n with
    | .pat p => strOp (fun s => caretSearch p s) v
    | _ => Option.none
  | .strStartswith n => match args n with
    | .str a => strOp (fun s => a.toList.isPrefixOf s.toList) v
    | _ => Option.none
  | .strEndswith n => match args n with
    | .str a => strOp (fun s => a.toList.isSuffixOf s.toList) v
    | _ => Option.none
  | .strLenCmp op n => match args n with
    | .nat k => strOp (fun s => cmpNat op s.length k) v
    | _ => Option.none
  | .ifNone ns t e => if ns.all (fun n => args n == .none) then t.eval args v else e.eval args v
  | .ifFlag n t e => match args n with
    | .flag true => t.eval args v
    | .flag false => e.eval args v
    | _ => Option.none
  | .raise => Option.none
  | .unsupported => Option.none

/-- name of the registered built-in and the keyword arguments `Check.<name>` passes to it -/
def Builtin.pyName : Builtin → String
  | .eq _ => "equal_to" | .ne _ => "not_equal_to"
  | .gt _ => "greater_than" | .ge _ => "greater_than_or_equal_to"
  | .lt _ => "less_than" | .le _ => "less_than_or_equal_to"
  | .inRange .. => "in_range" | .isin _ => "isin" | .notin _ => "notin"
  | .strMatches _ => "str_matches" | .strContains _ => "str_contains"
  | .strStartswith _ => "str_startswith" | .strEndswith _ => "str_endswith"
  | .strLength .. => "str_length"

def optNat : Option Nat → ArgVal
  | some n => .nat n
  | Option.none => .none

def Builtin.pyArgs : Builtin → Args
  | .eq v => fun n => if n == "value" then .val v else .none
  | .ne v => fun n => if n == "value" then .val v else .none
  | .gt v => fun n => if n == "min_value" then .val v else .none
  | .ge v => fun n => if n == "min_value" then .val v else .none
  | .lt v => fun n => if n == "max_value" then .val v else .none
  | .le v => fun n => if n == "max_value" then .val v else .none
  | .inRange lo hi il ih => fun n =>
    if n == "min_value" then .val lo else if n == "max_value" then .val hi
    else if n == "include_min" then .flag il else if n == "include_max" then .flag ih else .none
  | .isin vs => fun n => if n == "allowed_values" then .vals vs else .none
  | .notin vs => fun n => if n == "forbidden_values" then .vals vs else .none
  | .strMatches p => fun n => if n == "pattern" then .pat p else .none
  | .strContains p => fun n => if n == "pattern" then .pat p else .none
  | .strStartswith s => fun n => if n == "string" then .str s else .none
  | .strEndswith s => fun n => if n == "string" then .str s else .none
  | .strLength lo hi => fun n =>
    if n == "min_value" then optNat lo else if n == "max_value" then optNat hi else .none

def lookupCE (tbl : List (String × CE)) (name : String) : CE :=
  match tbl.find? (·.1 == name) with
  | some p => p.2
  | Option.none => .unsupported

/-- a built-in check evaluated through a (generated) table of expressions -/
def evalVia (tbl : List (String × CE)) (b : Builtin) (v : Val) : Option Bool :=
  (lookupCE tbl b.pyName).eval b.pyArgs v

end Pandera

import PanderaModel.Spec
/-!
# Data synthesis (C13): strategies as supports

A hypothesis strategy is modelled by its **support** — the set of values it can produce.  Each
per-check strategy function of `pandera/strategies/pandas_strategies.py` either starts from the
dtype (no preceding strategy) or is chained onto the preceding strategy, which it must *filter*;
a function that ignores the preceding strategy *replaces* it.
-/
namespace Pandera.Strat

abbrev Support := Val → Bool

inductive Mode | filter | replace
  deriving Repr, DecidableEq, Inhabited

/-- one step of `field_element_strategy`: the strategy of check `c` given the preceding one.
`base c` is what the function generates when nothing precedes it; `holds c` the check itself. -/
def step {χ : Type} (mode : χ → Mode) (base : χ → Support) (holds : χ → Support) (prev : Option Support) (c : χ) :
    Support :=
  match prev with
  | none => base c
  | some p => match mode c with
    | .filter => fun v => p v && holds c v
    | .replace => base c

/-- `field_element_strategy`: the checks' strategies chained in order; the plain dtype strategy when
there is no check -/
def chain {χ : Type} (mode : χ → Mode) (base : χ → Support) (holds : χ → Support) :
    List χ → Option Support → Option Support
  | [], acc => acc
  | c :: cs, acc => chain mode base holds cs (some (step mode base holds acc c))

def fieldSupport {χ : Type} (mode : χ → Mode) (dtype : Support) (base : χ → Support) (holds : χ → Support)
    (checks : List χ) : Support :=
  (chain mode base holds checks none).getD dtype

/-- container assembly: a drawn column consists of elements of the field support, nulls only when
`nullable`, pairwise distinct when `unique` -/
def columnInSupport (elem : Support) (nullable unique : Bool) (vals : List Val) : Prop :=
  (∀ v ∈ vals, (v.isNull = true ∧ nullable = true) ∨ (v.isNull = false ∧ elem v = true))
  ∧ (unique = true → Spec.distinct vals)

end Pandera.Strat

/-!
# Decorators (C17): argument location and replacement

`check_input._wrapper` and `check_output.validate` of `pandera/decorators.py` re-implement a part
of Python's argument binding.  The model has Python's binding (`bind`, the specification: which
object each parameter of the undecorated function receives) and the decorator's own location /
replacement logic (`checkInput`), transcribed branch by branch.

Objects are abstract identities; `validate` is an arbitrary function (accept-and-parse or reject).
-/
namespace Pandera.Deco

abbrev Obj := Nat

inductive PKind | pos | varArgs | kwOnly | varKw
  deriving Repr, DecidableEq, Inhabited

structure Param where
  name : String
  kind : PKind
  hasDefault : Bool := false
  deriving Repr, DecidableEq, Inhabited

structure Call where
  args : List Obj
  kwargs : List (String × Obj)
  deriving Repr, DecidableEq, Inhabited

/-- names of the positional-or-keyword parameters, in order (what `getfullargspec(fn).args` lists) -/
def posNames (sig : List Param) : List String := (sig.filter (·.kind == .pos)).map (·.name)

def kwOnlyNames (sig : List Param) : List String := (sig.filter (·.kind == .kwOnly)).map (·.name)

def hasVarArgs (sig : List Param) : Bool := sig.any (·.kind == .varArgs)
def hasVarKw (sig : List Param) : Bool := sig.any (·.kind == .varKw)

/-- what the body of the undecorated function receives -/
structure Bound where
  named : List (String × Obj)     -- parameters that received a value (positionally, then by keyword)
  star : List Obj                 -- `*args`
  starKw : List (String × Obj)    -- `**kwargs`
  deriving Repr, DecidableEq, Inhabited

/-- is the keyword a declared (positional-or-keyword or keyword-only) parameter? -/
def known (sig : List Param) (k : String) : Bool := (posNames sig).contains k || (kwOnlyNames sig).contains k

/-- the four ways a call can fail to bind (TypeError): surplus positional arguments without `*args`,
multiple values for a parameter, an unexpected keyword without `**kwargs`, a missing argument -/
def bindOk (sig : List Param) (posKeys : List String) (extra : List Obj) (kwargs : List (String × Obj)) : Bool :=
  !(!extra.isEmpty && !hasVarArgs sig)
  && !kwargs.any (fun kv => posKeys.contains kv.1)
  && !(kwargs.any (fun kv => !known sig kv.1) && !hasVarKw sig)
  && !sig.any (fun p => (p.kind == .pos || p.kind == .kwOnly) && !p.hasDefault
        && !(posKeys ++ (kwargs.filter fun kv => known sig kv.1).map (·.1)).contains p.name)

/-- Python's binding of a call to a signature (`none` = TypeError) -/
def bind (sig : List Param) (c : Call) : Option Bound :=
  let byPos := (posNames sig).zip c.args
  let extra := c.args.drop (posNames sig).length
  if bindOk sig (byPos.map (·.1)) extra c.kwargs then
    some { named := byPos ++ c.kwargs.filter (fun kv => known sig kv.1), star := extra,
           starKw := c.kwargs.filter (fun kv => !known sig kv.1) }
  else none

/-! ## `check_input` -/

inductive Getter
  | none | idx (i : Nat) | name (s : String)
  deriving Repr, DecidableEq, Inhabited

inductive Outcome
  | call (c : Call)          -- the body runs, invoked with this call
  | schemaError              -- the designated input was rejected (SchemaError / SchemaErrors)
  | indexError | keyError | valueError
  deriving Repr, DecidableEq, Inhabited

def isMethod (sig : List Param) : Bool :=
  match sig with
  | p :: _ => p.name == "self" || p.name == "cls"
  | [] => false

/-- `_get_fn_argnames`: the positional parameter names without a leading self / cls -/
def fnArgNames (sig : List Param) : List String :=
  if isMethod sig then (posNames sig).drop 1 else posNames sig

def setKw (kw : List (String × Obj)) (k : String) (o : Obj) : List (String × Obj) :=
  kw.map fun p => if p.1 == k then (k, o) else p

/-- validate the object and, when accepted, continue with the parsed object.  `fwd` records whether
the branch forwards the decorator's validation options to `schema.validate` -/
def gate (validate : Bool → Obj → Option Obj) (fwd : Bool) (o : Obj) (k : Obj → Outcome) : Outcome :=
  match validate fwd o with
  | none => .schemaError
  | some o' => k o'

/-- which branches forward the options (regenerated from the source) -/
structure Fwd where
  intBranch : Bool
  strKw : Bool
  strPos : Bool
  noneKw : Bool
  nonePos : Bool
  deriving Repr, DecidableEq, Inhabited

/-- `check_input(...)(fn)(*args, **kwargs)` -/
def checkInput (F : Fwd) (sig : List Param) (g : Getter) (validate : Bool → Obj → Option Obj) (c : Call) : Outcome :=
  let m := isMethod sig
  -- names bound positionally by `sig.bind_partial(*args)`
  let bound := (posNames sig).take c.args.length
  match g with
  | .idx i =>
    let j := if m then i + 1 else i
    match c.args[j]? with
    | none => .indexError
    | some o => gate validate F.intBranch o fun o' => .call { c with args := c.args.set j o' }
  | .name s =>
    match c.kwargs.lookup s with
    | some o => gate validate F.strKw o fun o' => .call { c with kwargs := setKw c.kwargs s o' }
    | none =>
      match bound.idxOf? s with
      | none => .keyError
      | some j =>
        match c.args[j]? with
        | none => .keyError
        | some o => gate validate F.strPos o fun o' => .call { c with args := c.args.set j o' }
  | .none =>
    match fnArgNames sig with
    | [] => .valueError
    | s :: _ =>
      match c.kwargs.lookup s with
      | some o => gate validate F.noneKw o fun o' => .call { c with kwargs := setKw c.kwargs s o' }
      | none =>
        if bound.contains s then
          let j := (posNames sig).idxOf s
          match c.args[j]? with
          | none => .indexError
          | some o => gate validate F.nonePos o fun o' => .call { c with args := c.args.set j o' }
        else .valueError

/-- the parameter a getter designates -/
def designated (sig : List Param) (g : Getter) : Option String :=
  match g with
  | .idx i => (posNames sig)[if isMethod sig then i + 1 else i]?
  | .name s => some s
  | .none => (fnArgNames sig).head?

/-! ## `check_output` -/

/-- the shape of a function's return value -/
inductive Out
  | single (o : Obj)
  | seq (xs : List Obj)                 -- tuple / list
  | dict (kvs : List (String × Obj))
  deriving Repr, DecidableEq, Inhabited

inductive OGetter | none | idx (i : Nat) | key (s : String)
  deriving Repr, DecidableEq, Inhabited

inductive OOutcome
  | ret (o : Out) | schemaError | lookupError
  deriving Repr, DecidableEq, Inhabited

/-- `check_output.validate(out, fn)`; `returnsValidated = false` models a wrapper that validates
but hands back the original object -/
def checkOutput (returnsValidated : Bool) (g : OGetter) (validate : Obj → Option Obj) (out : Out) : OOutcome :=
  let fin := fun (v : Out) => OOutcome.ret (if returnsValidated then v else out)
  match g, out with
  | .none, .single o => match validate o with
    | none => .schemaError
    | some o' => fin (.single o')
  | .idx i, .seq xs => match xs[i]? with
    | none => .lookupError
    | some o => match validate o with
      | none => .schemaError
      | some o' => fin (.seq (xs.set i o'))
  | .key s, .dict kvs => match kvs.lookup s with
    | none => .lookupError
    | some o => match validate o with
      | none => .schemaError
      | some o' => fin (.dict (setKw kvs s o'))
  | _, _ => .lookupError

end Pandera.Deco

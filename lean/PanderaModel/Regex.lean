/-!
# Regular expressions (the fragment the harness generates)

Brzozowski-derivative matcher with the three entry points the code uses:
`fullMatch` (`re.fullmatch`), `prefixMatch` (`re.match`, pandas `str.match`) and
`search` (`re.search`, pandas `str.contains`, polars `str.contains`).
-/
namespace Pandera

inductive Pat
  | empty                     -- matches nothing
  | eps
  | chr (c : Char)
  | any
  | cls (cs : List Char)
  | seq (a b : Pat)
  | alt (a b : Pat)
  | star (a : Pat)
  deriving Repr, DecidableEq, Inhabited

namespace Pat

def nullable : Pat → Bool
  | empty => false
  | eps => true
  | chr _ => false
  | any => false
  | cls _ => false
  | seq a b => a.nullable && b.nullable
  | alt a b => a.nullable || b.nullable
  | star _ => true

def deriv (c : Char) : Pat → Pat
  | empty => empty
  | eps => empty
  | chr d => if c = d then eps else empty
  | any => eps
  | cls cs => if cs.contains c then eps else empty
  | seq a b =>
    if a.nullable then alt (seq (deriv c a) b) (deriv c b) else seq (deriv c a) b
  | alt a b => alt (deriv c a) (deriv c b)
  | star a => seq (deriv c a) (star a)

def fullMatchL : Pat → List Char → Bool
  | p, [] => p.nullable
  | p, c :: cs => fullMatchL (p.deriv c) cs

def prefixMatchL : Pat → List Char → Bool
  | p, [] => p.nullable
  | p, c :: cs => p.nullable || prefixMatchL (p.deriv c) cs

def searchL (p : Pat) : List Char → Bool
  | [] => p.nullable
  | c :: cs => prefixMatchL p (c :: cs) || searchL p cs

def fullMatch (p : Pat) (s : String) : Bool := fullMatchL p s.toList
def prefixMatch (p : Pat) (s : String) : Bool := prefixMatchL p s.toList
def search (p : Pat) (s : String) : Bool := searchL p s.toList

/-- literal string as a pattern -/
def lit : List Char → Pat
  | [] => eps
  | c :: cs => seq (chr c) (lit cs)

end Pat
end Pandera

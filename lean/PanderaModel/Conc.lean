/-!
# Threads over shared state

A world is a shared store plus per-thread private state; a thread is a list of instructions that
load from / store to shared locations, compute privately and emit observations (what the
validation in that thread "sees": the dtype/coerce it validates with, the depth in force).  A
schedule is a list of thread ids; each entry lets that thread execute one instruction.
-/
namespace Pandera.Conc

inductive Instr
  | load (slot loc : Nat)          -- locals[slot] := shared[loc]
  | store (loc slot : Nat)         -- shared[loc] := locals[slot]
  | setc (loc : Nat) (v : Int)     -- shared[loc] := v
  | obs (loc : Nat)                -- observe shared[loc] (append to the thread's output)
  deriving Repr, DecidableEq, Inhabited

structure TState where
  code : List Instr
  locals : Nat → Int
  out : List Int

abbrev Shared := Nat → Int

def upd (f : Nat → Int) (i : Nat) (v : Int) : Nat → Int := fun j => if j = i then v else f j

/-- one instruction of one thread -/
def stepT (sh : Shared) (t : TState) : Shared × TState :=
  match t.code with
  | [] => (sh, t)
  | .load s l :: rest => (sh, { t with code := rest, locals := upd t.locals s (sh l) })
  | .store l s :: rest => (upd sh l (t.locals s), { t with code := rest })
  | .setc l v :: rest => (upd sh l v, { t with code := rest })
  | .obs l :: rest => (sh, { t with code := rest, out := t.out ++ [sh l] })

structure World where
  shared : Shared
  threads : Nat → TState

def updT (f : Nat → TState) (i : Nat) (t : TState) : Nat → TState := fun j => if j = i then t else f j

def stepW (w : World) (i : Nat) : World :=
  let r := stepT w.shared (w.threads i)
  ⟨r.1, updT w.threads i r.2⟩

def run (w : World) : List Nat → World
  | [] => w
  | i :: rest => run (stepW w i) rest

/-- locations an instruction reads / writes -/
def Instr.reads : Instr → List Nat
  | .load _ l => [l] | .obs l => [l] | _ => []
def Instr.writes : Instr → List Nat
  | .store l _ => [l] | .setc l _ => [l] | _ => []

def footprint (code : List Instr) : List Nat := (code.map (fun i => i.reads ++ i.writes)).flatten
def writeSet (code : List Instr) : List Nat := (code.map Instr.writes).flatten

/-- thread `i` alone, for `k` steps, from the same shared store -/
def solo (sh : Shared) (t : TState) : Nat → Shared × TState
  | 0 => (sh, t)
  | k + 1 => let r := stepT sh t; solo r.1 r.2 k

end Pandera.Conc

import PanderaModel.Data
/-!
# Coercion on the abstract universe

`coerceValue T v` is the element-level conversion of the pandas engine for the modelled targets
(`int64`, `float64`, `str`) from int / float / str / bool sources; `none` = the element cannot be
converted.  `tryCoerce` is the container-level contract of `DataType.try_coerce`: all elements
convert, or a parser error naming exactly the elements that do not.
-/
namespace Pandera

/-- digits of a natural number -/
def natDigits (n : Nat) : String := toString n

/-- Python's `str(float)` on the quarter grid: `q / 4` -/
def fltRepr (q : Int) : String :=
  let neg := q < 0
  let a := q.natAbs
  let whole := a / 4
  let frac := match a % 4 with | 0 => "0" | 1 => "25" | 2 => "5" | _ => "75"
  (if neg then "-" else "") ++ toString whole ++ "." ++ frac

def intRepr (i : Int) : String := if i < 0 then "-" ++ toString i.natAbs else toString i.natAbs

def digitVal? (c : Char) : Option Nat :=
  if '0' ≤ c ∧ c ≤ '9' then some (c.toNat - '0'.toNat) else none

def parseNat? : List Char → Option Nat
  | [] => none
  | cs => cs.foldl (fun acc c => match acc, digitVal? c with
      | some a, some d => some (10 * a + d)
      | _, _ => none) (some 0)

/-- `int("…")` for plain decimal literals -/
def parseInt? (s : String) : Option Int :=
  match s.toList with
  | '-' :: rest => (parseNat? rest).map (fun n => -(n : Int))
  | cs => (parseNat? cs).map (fun n => (n : Int))

/-- `float("…")` for decimal literals on the quarter grid; result in quarter units -/
def parseQuarter? (s : String) : Option Int :=
  let (neg, body) := match s.toList with
    | '-' :: rest => (true, rest)
    | cs => (false, cs)
  let whole := body.takeWhile (· != '.')
  let rest := body.dropWhile (· != '.')
  let fracQ : Option Nat := match rest with
    | [] => some 0
    | ['.', '0'] => some 0
    | ['.', '5'] => some 2
    | ['.', '2', '5'] => some 1
    | ['.', '7', '5'] => some 3
    | _ => none
  match parseNat? whole, fracQ with
  | some w, some f => some ((if neg then -1 else 1) * ((4 * w + f : Nat) : Int))
  | _, _ => none

def coerceValue (t : DType) (v : Val) : Option Val :=
  match t, v with
  | .int64, .int i => some (.int i)
  | .int64, .flt q => some (.int (Int.tdiv q 4))
  | .int64, .bool b => some (.int (if b then 1 else 0))
  | .int64, .str s => (parseInt? s).map .int
  | .int64, .null => none
  | .float64, .int i => some (.flt (4 * i))
  | .float64, .flt q => some (.flt q)
  | .float64, .bool b => some (.flt (if b then 4 else 0))
  | .float64, .str s => (parseQuarter? s).map .flt
  | .float64, .null => some .null
  | .str, .int i => some (.str (intRepr i))
  | .str, .flt q => some (.str (fltRepr q))
  | .str, .bool b => some (.str (if b then "True" else "False"))
  | .str, .str s => some (.str s)
  | .str, .null => some .null
  | _, _ => none

/-- container-level `try_coerce`: the coerced values, or the failing (position, value) pairs -/
def tryCoerce (t : DType) (vals : List Val) : Except (List (Nat × Val)) (List Val) :=
  let bad := vals.zipIdx.filterMap (fun p => if (coerceValue t p.1).isNone then some (p.2, p.1) else none)
  if bad.isEmpty then .ok (vals.map (fun v => (coerceValue t v).getD .null)) else .error bad

/-- targets whose coercion the model covers -/
def coercibleTarget (t : DType) : Bool := t == .int64 || t == .float64 || t == .str

end Pandera

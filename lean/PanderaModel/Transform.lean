/-!
# Schema transformation methods (C15)

`DataFrameSchema.add_columns / remove_columns / update_column / update_columns / rename_columns /
select_columns / set_index / reset_index` of `pandera/api/dataframe/container.py`, transcribed
over *attribute maps*: a schema component (Column, Index) is the list of its constructor
parameters with (canonical renderings of) their values.  Which attributes exist, which of them
`Column.properties` hands to the rebuilt column, and which keywords `set_index` / `reset_index`
copy are **parameters** (`Vocab`) — instantiated from the tables regenerated from the source
(`Generated/ColumnProps.lean`), so the theorems are re-checked against the code's own key sets.

No imports: the driver links this file.
-/
namespace Pandera.Transform

abbrev Attrs := List (String × String)

inductive TErr | schemaInit | value | type | key
  deriving Repr, DecidableEq, Inhabited

/-- the attribute vocabulary of the code (regenerated) -/
structure Vocab where
  colCtor : List (String × String)       -- Column.__init__: parameter, default
  colVarKw : Bool                        -- does Column.__init__ take **kwargs
  idxCtor : List (String × String)       -- Index.__init__
  colProps : List (String × String)      -- Column.properties: key, attribute read
  setIdxKw : List (String × String)      -- set_index: Index(kw = column.attr)
  resetIdxKw : List (String × String)    -- reset_index: Column(kw = level.attr)
  miDefaults : Attrs                     -- options of a freshly built MultiIndex
  deriving Repr, Inhabited

structure TSchema where
  columns : List (String × Attrs)        -- insertion-ordered dict, name ↦ Column
  index : List Attrs := []               -- [] = None, [i] = Index, ≥ 2 levels = MultiIndex
  miOpts : Attrs := []                   -- MultiIndex options (meaningful when ≥ 2 levels)
  top : Attrs := []                      -- dataframe-level attributes (never touched)
  deriving Repr, DecidableEq, Inhabited

def keys (d : List (String × α)) : List String := d.map (·.1)

/-- `d[k] = v` on an insertion-ordered dict -/
def dictSet (d : List (String × α)) (kv : String × α) : List (String × α) :=
  if d.any (fun p => p.1 == kv.1) then d.map (fun p => if p.1 == kv.1 then kv else p) else d ++ [kv]

/-- `{**d, **e}` -/
def dictMerge (d e : List (String × α)) : List (String × α) := e.foldl dictSet d

/-- a dict display / comprehension over a sequence of items (later duplicates overwrite) -/
def dictOf (items : List (String × α)) : List (String × α) := dictMerge [] items

/-- calling a constructor with keyword arguments: unknown keywords are a `TypeError` unless the
signature has `**kwargs`; parameters not given take their default -/
def construct (ctor : List (String × String)) (varKw : Bool) (kw : Attrs) : Except TErr Attrs :=
  if varKw || kw.all (fun p => ctor.any (fun q => q.1 == p.1)) then
    .ok (ctor.map fun q => (q.1, (kw.lookup q.1).getD q.2))
  else .error .type

/-- keyword arguments read off an existing component through a (keyword, attribute) table -/
def readAttrs (table : List (String × String)) (obj : Attrs) : Attrs :=
  table.filterMap fun p => (obj.lookup p.2).map fun v => (p.1, v)

def setName (c : Attrs) (n : String) : Attrs :=
  c.map fun p => if p.1 == "name" then ("name", n) else p

def nameOf (c : Attrs) : String := (c.lookup "name").getD "None"

/-- `add_columns(extra)`: `DataFrameSchema(extra).columns` names every column by its key -/
def addColumns (S : TSchema) (extra : List (String × Attrs)) : TSchema :=
  { S with columns := dictMerge S.columns (extra.map fun p => (p.1, setName p.2 p.1)) }

def removeColumns (S : TSchema) (names : List String) : Except TErr TSchema :=
  if names.any (fun n => !(keys S.columns).contains n) then .error .schemaInit
  else if ¬ names.Nodup then .error .key        -- the second `pop` of the same key
  else .ok { S with columns := S.columns.filter fun p => !names.contains p.1 }

/-- `Column(**{**column.properties, **kwargs})` -/
def rebuild (V : Vocab) (c : Attrs) (kw : Attrs) : Except TErr Attrs :=
  construct V.colCtor V.colVarKw (kw ++ readAttrs V.colProps c)

def updateColumn (V : Vocab) (S : TSchema) (name : String) (kw : Attrs) : Except TErr TSchema :=
  if kw.any (fun p => p.1 == "name") then .error .value else
  match S.columns.lookup name with
  | none => .error .value
  | some c => do
    let c' ← rebuild V (setName c name) kw
    pure { S with columns := dictSet S.columns (name, c') }

/-- one column of `update_columns`: rebuilt from its properties and the keywords given for it -/
def rebuildEntry (V : Vocab) (upd : List (String × Attrs)) (p : String × Attrs) : Except TErr (String × Attrs) :=
  match rebuild V p.2 ((upd.lookup p.1).getD []) with
  | .error e => .error e
  | .ok c' => .ok (p.1, c')

def updateColumns (V : Vocab) (S : TSchema) (upd : List (String × Attrs)) : Except TErr TSchema :=
  if upd.any (fun p => !(keys S.columns).contains p.1) then .error .schemaInit
  else if S.columns.any (fun p => match upd.lookup p.1 with
      | some kw => !kw.isEmpty && kw.any (fun q => q.1 == "name")
      | none => false) then .error .schemaInit
  else
    match S.columns.mapM (rebuildEntry V upd) with
    | .error e => .error e
    | .ok cols => .ok { S with columns := cols }

def renameColumns (S : TSchema) (m : List (String × String)) : Except TErr TSchema :=
  if m.any (fun p => !(keys S.columns).contains p.1) then .error .schemaInit
  else
    let m' := m.filter fun p => p.1 != p.2
    if m'.any (fun p => (keys S.columns).contains p.2) then .error .schemaInit
    else .ok { S with columns := dictOf (S.columns.map fun p =>
      match m'.lookup p.1 with
      | some n => (n, setName p.2 n)
      | none => p) }

def selectColumns (S : TSchema) (names : List String) : Except TErr TSchema :=
  if names.any (fun n => !(keys S.columns).contains n) then .error .schemaInit
  else .ok { S with columns := dictOf (names.filterMap fun n => (S.columns.lookup n).map fun c => (n, c)) }

/-- the `Index(...)` that `set_index` builds from a column -/
def levelOf (V : Vocab) (c : Attrs) : Except TErr Attrs :=
  construct V.idxCtor false (readAttrs V.setIdxKw c)

/-- the `Column(...)` that `reset_index` builds from an index level -/
def columnOf (V : Vocab) (v : Attrs) : Except TErr Attrs :=
  construct V.colCtor V.colVarKw (readAttrs V.resetIdxKw v)

def setIndex (V : Vocab) (S : TSchema) (ks : List String) (drop append : Bool) : Except TErr TSchema :=
  if ks.any (fun n => !(keys S.columns).contains n) then .error .schemaInit
  else
    match ks.mapM (fun k => levelOf V ((S.columns.lookup k).getD [])) with
    | .error e => .error e
    | .ok new =>
      let ix := (if S.index.isEmpty || !append then [] else S.index) ++ new
      let S' := { S with index := ix, miOpts := if ix.length ≥ 2 then V.miDefaults else [] }
      if drop then removeColumns S' ks else .ok S'

/-- one restored column of `reset_index` -/
def columnEntry (V : Vocab) (v : Attrs) : Except TErr (String × Attrs) :=
  match columnOf V v with
  | .error e => .error e
  | .ok c => .ok (nameOf v, c)

/-- `reset_index`: the levels that leave the index come back as columns unless `drop` -/
def restoreColumns (V : Vocab) (S : TSchema) (moved : List Attrs) (drop : Bool) : Except TErr TSchema :=
  if drop then .ok S else
  match moved.mapM (columnEntry V) with
  | .error e => .error e
  | .ok cols => .ok (addColumns S (dictOf cols))

def finishReset (V : Vocab) (S : TSchema) (moved kept : List Attrs) (drop : Bool) : Except TErr TSchema :=
  match restoreColumns V S moved drop with
  | .error e => .error e
  | .ok S1 => .ok { S1 with index := kept, miOpts := if kept.length ≥ 2 then S.miOpts else [] }

/-- `reset_index` once `level_temp` is known -/
def resetWith (V : Vocab) (S : TSchema) (lv : List String) (drop : Bool) : Except TErr TSchema :=
  let names := S.index.map nameOf
  let multi := S.index.length ≥ 2
  let notIn := if multi then lv.filter (fun n => !names.contains n)
               else if lv == names then [] else lv
  if !notIn.isEmpty then .error .schemaInit
  else if multi then
    finishReset V S (S.index.filter fun i => lv.contains (nameOf i)) (S.index.filter fun i => !lv.contains (nameOf i)) drop
  else finishReset V S S.index [] drop

def resetIndex (V : Vocab) (S : TSchema) (level : Option (List String)) (drop : Bool) : Except TErr TSchema :=
  if level == some [] then .ok S
  else if S.index.isEmpty then .error .schemaInit
  else resetWith V S (match level with
    | none => S.index.map nameOf
    | some l => l.eraseDups) drop         -- `list(set(level))`

/-! ## operations as data (for the driver and for sequences) -/

inductive Op
  | add (extra : List (String × Attrs))
  | remove (names : List String)
  | update (name : String) (kw : Attrs)
  | updateMany (upd : List (String × Attrs))
  | rename (m : List (String × String))
  | select (names : List String)
  | setIndex (ks : List String) (drop append : Bool)
  | resetIndex (level : Option (List String)) (drop : Bool)
  deriving Repr, Inhabited

def apply (V : Vocab) (S : TSchema) : Op → Except TErr TSchema
  | .add e => .ok (addColumns S e)
  | .remove ns => removeColumns S ns
  | .update n kw => updateColumn V S n kw
  | .updateMany u => updateColumns V S u
  | .rename m => renameColumns S m
  | .select ns => selectColumns S ns
  | .setIndex ks d a => setIndex V S ks d a
  | .resetIndex l d => resetIndex V S l d

/-- a sequence of operations; stops at the first invalid request -/
def applyAll (V : Vocab) (S : TSchema) : List Op → Except TErr TSchema
  | [] => .ok S
  | op :: ops => do
    let S' ← apply V S op
    applyAll V S' ops

/-! ## frames and (structural) acceptance -/

/-- a frame over an arbitrary type `δ` of column data -/
structure TFrame (δ : Type) where
  cols : List (String × δ)
  index : List (String × δ) := []        -- named index levels

/-- the attributes that decide what a component accepts: everything the Index and the Column
constructors share, except the name — in the canonical order of `Index.__init__` -/
def comp (V : Vocab) (c : Attrs) : Attrs :=
  V.idxCtor.filterMap fun q => if q.1 == "name" then none else some (q.1, (c.lookup q.1).getD q.2)

def isTrue (a : Attrs) (k : String) : Bool := a.lookup k == some "True"

/-- index levels pair up with the level declarations -/
def levelsOk {δ : Type} (P : Attrs → String × δ → Prop) : List Attrs → List (String × δ) → Prop
  | [], [] => True
  | a :: as, b :: bs => P a b ∧ levelsOk P as bs
  | _, _ => False

/-- structural acceptance for an **arbitrary** component-level verdict `ok` -/
def accept {δ : Type} (V : Vocab) (ok : Attrs → δ → Bool) (S : TSchema) (D : TFrame δ) : Prop :=
  (∀ p ∈ S.columns, (isTrue p.2 "required" = true → (keys D.cols).contains p.1 = true)
      ∧ ∀ d, D.cols.lookup p.1 = some d → ok (comp V p.2) d = true)
  ∧ (isTrue S.top "strict" = true → ∀ q ∈ D.cols, (keys S.columns).contains q.1 = true)
  ∧ (isTrue S.top "ordered" = true →
      (keys D.cols).filter (fun n => (keys S.columns).contains n)
        = (keys S.columns).filter (fun n => (keys D.cols).contains n))
  ∧ (S.index ≠ [] → levelsOk (fun ix lv => nameOf ix = lv.1 ∧ ok (comp V ix) lv.2 = true) S.index D.index)

/-! ## the mirrored frame operations -/

def TFrame.drop {δ : Type} (D : TFrame δ) (ns : List String) : TFrame δ :=
  { D with cols := D.cols.filter fun p => !ns.contains p.1 }

/-- `df.set_index(k)` (one key, replacing the index) -/
def TFrame.setIndex1 {δ : Type} (D : TFrame δ) (k : String) : TFrame δ :=
  match D.cols.lookup k with
  | some d => { cols := D.cols.filter (fun p => ![k].contains p.1), index := [(k, d)] }
  | none => D

/-- `df.reset_index()`: the levels become the first columns -/
def TFrame.resetIndex {δ : Type} (D : TFrame δ) : TFrame δ :=
  { cols := D.index ++ D.cols, index := [] }

end Pandera.Transform

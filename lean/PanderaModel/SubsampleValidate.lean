import PanderaModel.Pandas
import PanderaModel.Subsample
/-!
# Validation under head / tail / sample

`DataFrameSchemaBackend.run_checks_and_handle_errors` (pandas) and `DataFrameSchemaBackend.validate`
(polars) build the subsample once and hand each core check either the whole object or the
subsample; the table of who gets what is regenerated from the source
(`Generated/SubsampleRules.lean`).  `frameErrorsWith` is the lazy error list under that table.
-/
namespace Pandera

/-- the rows of a column at the given positions, in that order -/
def takeVals (vals : List Val) (ps : List Nat) : List Val := ps.map (fun i => vals.getD i .null)

/-- `rows_by_position(D, ps)`: the frame made of the rows at positions `ps` -/
def Frame.take (D : Frame) (ps : List Nat) : Frame :=
  { cols := D.cols.map (fun c => { c with vals := takeVals c.vals ps }),
    index := D.index.map (fun l => { l with vals := takeVals l.vals ps }),
    nrows := ps.length }

/-- who gets what among the core checks of a container -/
structure CoreArgs where
  presence : Arg
  jointUnique : Arg
  components : Arg
  deriving Repr, DecidableEq, Inhabited

def CoreArgs.ofTable (t : List (CoreCheck × Arg)) : CoreArgs :=
  { presence := argOf t .presence,
    jointUnique := argOf t .jointUnique,
    components := argOf t .components }

def pick (a : Arg) (whole sample : Frame) : Frame :=
  match a with
  | .sample => sample
  | _ => whole

/-- the lazy error list of `validate(D, head, tail, sample)`: the strict / ordered test is part of
parsing (whole object), every core check sees what the table says -/
def frameErrorsWith (A : CoreArgs) (T : ScopeTable) (d : Depth) (S : Schema) (D : Frame) (ps : List Nat) : List Err :=
  let sample := D.take ps
  strictOrderedErrors S D
  ++ presenceErrors T d S (pick A.presence D sample)
  ++ jointUniqueErrors T d S (pick A.jointUnique D sample)
  ++ (S.columns.map (fun c => columnErrors T d c (pick A.components D sample))).flatten
  ++ indexPartErrors T d S (pick A.components D sample)

/-- the same with the dataframe-level checks of the schema: user functions of the object they are handed, here an
arbitrary function `fc` from frames to errors; `fcArg` says which object `run_checks` receives -/
def frameErrorsWithChecks (A : CoreArgs) (fcArg : Arg) (fc : Frame → List Err) (T : ScopeTable) (d : Depth) (S : Schema)
    (D : Frame) (ps : List Nat) : List Err :=
  frameErrorsWith A T d S D ps ++ fc (pick fcArg D (D.take ps))

/-- who gets what among the core checks of a field (SeriesSchema, Index, polars Column) -/
structure FieldArgs where
  nullable : Arg
  unique : Arg
  dtype : Arg
  checks : Arg
  deriving Repr, DecidableEq, Inhabited

def FieldArgs.ofTable (t : List (CoreCheck × Arg)) : FieldArgs :=
  { nullable := argOf t .nullable, unique := argOf t .unique,
    dtype := argOf t .dtype, checks := argOf t .checks }

def pickVals (a : Arg) (whole sample : List Val) : List Val :=
  match a with
  | .sample => sample
  | _ => whole

/-- `ArraySchemaBackend.run_checks_and_handle_errors` under the options: `fieldErrors`, each core
check on the values the table hands it -/
def fieldErrorsWith (A : FieldArgs) (T : ScopeTable) (d : Depth) (ctx : Ctx) (spec : ColSpec)
    (fieldName : Option String) (phys : DType) (vals : List Val) (ps : List Nat) : List Err :=
  let sv := takeVals vals ps
  let label := fieldName
  let eName : List Err :=
    if optRuns T.fieldName d && !(spec.name.isNone || spec.name == fieldName) then
      [{ reason := .wrongFieldName, ctx, label }] else []
  let nv := pickVals A.nullable vals sv
  let nullPos := truePositions (nv.map Val.isNull)
  let eNull : List Err :=
    if optRuns T.fieldNullable d && !spec.nullable && !nullPos.isEmpty then
      [{ reason := .seriesContainsNulls, ctx, label, cells := cellsAt label nv nullPos }] else []
  let uv := pickVals A.unique vals sv
  let dupPos := truePositions (dupMask spec.reportDup uv)
  let eUniq : List Err :=
    if optRuns T.fieldUnique d && spec.unique && !dupPos.isEmpty then
      [{ reason := .seriesContainsDuplicates, ctx, label, cells := cellsAt label uv dupPos }] else []
  let eDtype : List Err := dtypeErrs (optRuns T.fieldDtype d) ctx label spec.dtype phys (pickVals A.dtype vals sv)
  let eChecks : List Err :=
    if optRuns (if ctx == .column then T.columnChecks else T.fieldChecks) d then
      checksSteps ctx label (pickVals A.checks vals sv) spec.checks else []
  eName ++ eNull ++ eUniq ++ eDtype ++ eChecks

end Pandera

import PanderaModel.Pandas
import PanderaModel.Coerce
import PanderaModel.Errors
/-!
# The parsing half of `DataFrameSchema.validate` (pandas)

`add_missing_columns → strict='filter' → set_defaults → coerce_dtype`, each a step that either
transforms the working frame or reports errors and leaves it alone; then the core checks of
`Pandas.lean` on the parsed frame; then `drop_invalid_rows`.
-/
namespace Pandera

/-- a fill value as stored in a column of physical dtype `phys` -/
def castFill (phys : DType) (v : Val) : Val :=
  match phys, v with
  | .float64, .int i => .flt (4 * i)
  | _, v => v

def fillna (phys : DType) (d : Option Val) (vals : List Val) : List Val :=
  match d with
  | some v => if v.isNull then vals else vals.map (fun x => if x.isNull then castFill phys v else x)
  | none => vals

/-! ### add_missing_columns -/

def specByName (S : Schema) (n : String) : Option ColSpec :=
  S.columns.find? (fun c => c.regex.isNone && c.name == some n)

/-- the insertion-order algorithm of `add_missing_columns`, statement by statement -/
def insertOrderAux (absent : List String) : List String → List String → List String → List String
  | [], _schemaCols, concat => concat
  | col :: rest, schemaCols, concat =>
    let run := schemaCols.takeWhile (fun n => absent.contains n && !concat.contains n)
    let broke := run.length < schemaCols.length
    let concat' := concat ++ run ++ [col]
    let schemaCols' := (if broke then schemaCols.drop run.length else schemaCols).erase col
    insertOrderAux absent rest schemaCols' concat'

def insertOrder (S : Schema) (D : Frame) : List String :=
  let absent := absentNames S D
  -- (regex declarations sit in this list under their pattern text and are never removed)
  let schemaCols := S.columns.filterMap (fun c => match c.name with
    | some n => if D.hasCol n || c.required then some n else none
    | none => none)
  let concat := insertOrderAux absent D.names schemaCols []
  concat ++ absent.filter (fun n => !concat.contains n)

/-- dtype and values of a freshly added column: the default (or null) coerced to the declared dtype;
`.error` with the uncoercible cells when that coercion fails -/
def missingColumn (spec : ColSpec) (n : String) (nrows : Nat) : Except (List (Nat × Val)) Column :=
  let fill : Val := spec.default.getD .null
  let raw := List.replicate nrows fill
  match spec.dtype with
  | none => .ok ⟨n, (fill.kind?).getD .str, raw⟩      -- no declared dtype: values kept as they are
  | some t =>
    if valFits t fill then .ok ⟨n, t, raw⟩ else
    -- `astype(bool)` turns a missing value into `False`
    if t == .bool && fill.isNull then .ok ⟨n, t, List.replicate nrows (.bool false)⟩ else
    match tryCoerce t raw with
    | .ok vs => .ok ⟨n, t, vs⟩
    | .error bad => .error bad

inductive ParseOut
  | ok (D : Frame) (errs : List Err)
  | crash                                   -- an internal exception escapes (recorded findings)
  deriving Repr, DecidableEq, Inhabited

def addMissingStep (S : Schema) (D : Frame) : ParseOut :=
  let absent := absentNames S D
  if absent.isEmpty || !S.addMissing then .ok D [] else
  -- absent columns need a default or nullability
  match absent.find? (fun n => match specByName S n with
      | some sp => (sp.default.getD .null).isNull && !sp.nullable
      | none => false) with
  | some n => .ok D [{ reason := .addMissingNoDefault, ctx := .frame, label := some n }]
  | none =>
    let newCols := absent.filterMap (fun n => (specByName S n).map (fun sp => (n, missingColumn sp n D.nrows)))
    -- the first default that cannot be coerced is raised as a coercion error; nothing is added
    match newCols.find? (fun p => match p.2 with | .error _ => true | .ok _ => false) with
    | some (n, .error _) =>
      .ok D [{ reason := .datatypeCoercion, ctx := .column, label := some n }]
    | _ =>
      let all := D.cols ++ newCols.filterMap (fun p => match p.2 with | .ok c => some c | .error _ => none)
      let order := insertOrder S D
      .ok { D with cols := order.filterMap (fun n => all.find? (·.name == n)) } []

/-- `strict='filter'`: drop the columns the schema does not declare -/
def strictFilterStep (S : Schema) (D : Frame) : Frame :=
  if S.strict == .filter then
    let keep := expandedNames S D
    { D with cols := D.cols.filter (fun c => keep.contains c.name) }
  else D

/-- `set_defaults`: `fillna(default)` for every declared (non-regex) column that is present -/
def setDefaultsStep (S : Schema) (D : Frame) : Frame :=
  { D with cols := D.cols.map (fun c =>
      match specByName S c.name with
      | some sp => { c with vals := fillna c.dtype sp.default c.vals }
      | none => c) }

/-- which column spec governs a physical column for coercion (declaration order, first match) -/
def coerceSpecFor (S : Schema) (D : Frame) (n : String) : List ColSpec :=
  S.columns.filter (fun sp => (sp.coerce || S.coerce) && (targets sp D).contains n)

/-- `_coerce_dtype_helper`: every declared column with `coerce` (or frame-level `coerce`), in schema
order; a column whose coercion fails stays as it was and yields a DATATYPE_COERCION error -/
def coerceColumn (sp : ColSpec) (c : Column) : Column × List Err :=
  match sp.dtype with
  | none => (c, [])
  | some t =>
    if !coercibleTarget t then (c, []) else
    match tryCoerce t c.vals with
    | .ok vs => ({ c with dtype := t, vals := vs }, [])
    | .error bad =>
      (c, [{ reason := .datatypeCoercion, ctx := .column, label := some c.name,
             cells := bad.map (fun b => ⟨some c.name, b.1, b.2⟩) }])

def coerceStep (S : Schema) (D : Frame) : Frame × List Err :=
  let step := fun (acc : List Column × List Err) (sp : ColSpec) =>
    if !(sp.coerce || S.coerce) then acc else
    let tg := targets sp D
    let res := acc.1.map (fun c => if tg.contains c.name then coerceColumn sp c else (c, []))
    (res.map (·.1), acc.2 ++ (res.map (·.2)).flatten)
  let (cols, errs) := S.columns.foldl step (D.cols, [])
  -- index coercion
  match S.index, D.index with
  | some ix, [l] =>
    if ix.coerce || S.coerce then
      match ix.dtype with
      | some t =>
        if !coercibleTarget t then ({ D with cols := cols }, errs) else
        match tryCoerce t l.vals with
        | .ok vs => ({ D with cols := cols, index := [{ l with dtype := t, vals := vs }] }, errs)
        | .error bad => ({ D with cols := cols },
            errs ++ [{ reason := .datatypeCoercion, ctx := .index, label := ix.name,
                       cells := bad.map (fun b => ⟨ix.name, b.1, b.2⟩) }])
      | none => ({ D with cols := cols }, errs)
    else ({ D with cols := cols }, errs)
  | _, _ => ({ D with cols := cols }, errs)

/-- all parsers, in code order -/
def parseFrame (S : Schema) (D : Frame) : ParseOut :=
  match addMissingStep S D with
  | .crash => .crash
  | .ok D1 e1 =>
    -- strict/ordered errors are raised by the same parser function, before filtering
    let D2 := strictFilterStep S D1
    let D3 := setDefaultsStep S D2
    let (D4, e4) := coerceStep S D3
    .ok D4 (e1 ++ e4)

/-- positions of the rows named by the row-level failure cases of a list of errors -/
def failingRows (es : List Err) : List Nat := (es.map (fun e => e.cells.map (·.pos))).flatten

def dropRows (D : Frame) (bad : List Nat) : Frame :=
  let keep := (List.range D.nrows).filter (fun i => !bad.contains i)
  { cols := D.cols.map (fun c => { c with vals := keep.map (fun i => c.vals.getD i .null) })
    index := D.index.map (fun l => { l with vals := keep.map (fun i => l.vals.getD i .null) })
    nrows := keep.length }

inductive ValidateOut
  | ok (D : Frame)
  | errors (es : List Err)
  | crash
  deriving Repr, DecidableEq, Inhabited

/-- `DataFrameSchema.validate(lazy=True)` with every parsing option -/
def validateLazy (T : ScopeTable) (d : Depth) (S : Schema) (D : Frame) : ValidateOut :=
  match parseFrame S D with
  | .crash => .crash
  | .ok P pe =>
    -- the strict/ordered test is made by the filtering parser with the column information collected
    -- *before* `add_missing_columns` ran, i.e. on the labels of the input frame
    let es := pe ++ strictOrderedErrors S D ++ coreCheckErrors T d S P
    if es.isEmpty then .ok P
    else if S.dropInvalid then
      -- every collected error must carry row-level failure cases
      if es.any (fun e => e.cells.isEmpty) then .errors es else .ok (dropRows P (failingRows es))
    else .errors es

end Pandera

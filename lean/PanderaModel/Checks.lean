import PanderaModel.Data
import PanderaModel.Regex
/-!
# Built-in checks and the check backend (column level)

`Builtin` is the vocabulary of `pandera.api.checks.Check` class methods that act
element-wise.  `docPred` is the documented predicate; the generated expressions in
`Generated/BuiltinChecks.lean` are proved equal to it in `Props/C01.lean`.
-/
namespace Pandera

inductive Builtin
  | eq (v : Val)
  | ne (v : Val)
  | gt (v : Val)
  | ge (v : Val)
  | lt (v : Val)
  | le (v : Val)
  | inRange (lo hi : Val) (incLo incHi : Bool)
  | isin (vs : List Val)
  | notin (vs : List Val)
  | strMatches (p : Pat)
  | strContains (p : Pat)
  | strStartswith (s : String)
  | strEndswith (s : String)
  | strLength (lo hi : Option Nat)
  deriving Repr, DecidableEq, Inhabited

/-- string view of a value for the `str_*` checks -/
def Val.str? : Val → Option String
  | .str s => some s
  | _ => none

/-- a `.str.<method>(…, na=False)` result: the method on strings, `False` on nulls, and an
exception for any other value (the `.str` accessor refuses non-string columns) -/
def strOp (f : String → Bool) : Val → Option Bool
  | .str s => some (f s)
  | .null => some false
  | _ => none

def optAnd (a b : Option Bool) : Option Bool :=
  match a, b with
  | some x, some y => some (x && y)
  | _, _ => none

/-- The documented element-wise meaning of a built-in check.  `none` = the
comparison is not defined for these kinds (Python raises `TypeError`). -/
def docPred : Builtin → Val → Option Bool
  | .eq a, v => some (Val.eqv v a)
  | .ne a, v => some (!Val.eqv v a)
  | .gt a, v => Val.lt? a v
  | .ge a, v => Val.le? a v
  | .lt a, v => Val.lt? v a
  | .le a, v => Val.le? v a
  | .inRange lo hi il ih, v =>
    optAnd (if il then Val.le? lo v else Val.lt? lo v)
           (if ih then Val.le? v hi else Val.lt? v hi)
  | .isin vs, v => some (vs.any (Val.eqv v))
  | .notin vs, v => some (!vs.any (Val.eqv v))
  | .strMatches p, v => strOp (fun s => p.prefixMatch s) v
  | .strContains p, v => strOp (fun s => p.search s) v
  | .strStartswith a, v => strOp (fun s => a.toList.isPrefixOf s.toList) v
  | .strEndswith a, v => strOp (fun s => a.toList.isSuffixOf s.toList) v
  | .strLength lo hi, v =>
    strOp (fun s => (match lo with | some l => decide (l ≤ s.length) | none => true)
                 && (match hi with | some h => decide (s.length ≤ h) | none => true)) v

structure CheckSpec where
  b : Builtin
  ignoreNa : Bool := true
  deriving Repr, DecidableEq, Inhabited

/-- outcome of applying one check to a column of values -/
inductive CheckOut
  | fails (positions : List Nat)   -- positions (into the column) whose value fails; `[]` = passed
  | raised                         -- the check function raised (reported as CHECK_ERROR)
  deriving Repr, DecidableEq, Inhabited

/-- element verdict under the backend's null handling: with `ignore_na` nulls are
dropped before the function is applied (so they pass), otherwise the function sees
them. -/
def elemOk (f : Val → Option Bool) (ignoreNa : Bool) (v : Val) : Option Bool :=
  if ignoreNa && v.isNull then some true else f v

/-- the check backend on one column: `preprocess` (dropna), `apply`, `postprocess`.
Generic in the check function. -/
def runCheckFn (f : Val → Option Bool) (ignoreNa : Bool) (vals : List Val) : CheckOut :=
  let kept := vals.zipIdx.filter (fun p => !(ignoreNa && p.1.isNull))
  let outs := kept.map (fun p => (f p.1, p.2))
  if outs.any (fun o => o.1.isNone) then .raised
  else .fails (outs.filterMap (fun o => if o.1 == some false then some o.2 else none))

def runCheck (c : CheckSpec) (vals : List Val) : CheckOut :=
  runCheckFn (docPred c.b) c.ignoreNa vals

end Pandera

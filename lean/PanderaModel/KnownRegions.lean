import PanderaModel.Schema
/-!
# Known-finding regions

Decidable predicates delimiting exactly the inputs on which a recorded defect of
the pinned tree shows (see `/verif/known_findings.json`).  Property theorems carry
the negation of the relevant region as an explicit hypothesis and are named
`…_partial`; a witness inside each region proves that the full statement fails there.
-/
namespace Pandera

/-- C01: `Column(str)` accepts a column of another physical dtype whose values are all
null (or that is empty), because the engine's `str` check is element-wise. -/
def K_C01_strVacuous (t phys : DType) (vals : List Val) : Bool :=
  t == .str && phys != .str && vals.all Val.isNull

end Pandera

import PanderaModel.Schema
/-!
# `infer_schema` (C14)

`pandera/schema_statistics/pandas.py` (`infer_dataframe_statistics`, `_get_array_check_statistics`)
and `pandera/schema_inference/pandas.py` over the abstract data universe: the inferred component has
the physical dtype, `nullable` iff a null occurs, and for numeric / datetime data the bounds
`>= min`, `<= max` — the numeric ones passed through `float()`.
-/
namespace Pandera.Infer

/-! ## `float(n)`: IEEE-754 binary64, round to nearest, ties to even -/

def bitLen (n : Nat) : Nat := if n = 0 then 0 else Nat.log2 n + 1

def roundNat (n : Nat) : Nat :=
  let b := bitLen n
  if b ≤ 53 then n else
    let e := b - 53
    let q := n / 2 ^ e
    let r := n % 2 ^ e
    let half := 2 ^ (e - 1)
    let q' := if r > half || (r == half && q % 2 == 1) then q + 1 else q
    q' * 2 ^ e

/-- the integer value of `float(i)` -/
def roundF64 (i : Int) : Int := if i ≥ 0 then (roundNat i.toNat : Int) else - (roundNat (-i).toNat : Int)

/-! ## statistics of one array -/

/-- the ordering key of a value of the column's dtype (quarter units for floats, ns for timestamps) -/
def keyOf (dt : DType) (v : Val) : Option Int :=
  match dt, v with
  | .int64, .int i => some i
  | .float64, .flt q => some q
  | .datetime, .ts n => some n
  | _, _ => none

def minKey : List Int → Option Int
  | [] => none
  | k :: ks => match minKey ks with
    | none => some k
    | some m => some (if k ≤ m then k else m)

def maxKey : List Int → Option Int
  | [] => none
  | k :: ks => match maxKey ks with
    | none => some k
    | some m => some (if m ≤ k then k else m)

/-- the statistic as the value handed to the check: integers go through `float()` -/
def boundOf (dt : DType) (k : Int) : Val :=
  match dt with
  | .int64 => .flt (4 * roundF64 k)
  | .float64 => .flt k
  | .datetime => .ts k
  | _ => .null

/-- `_get_array_check_statistics` + `parse_check_statistics` -/
def inferChecks (dt : DType) (vals : List Val) : List CheckSpec :=
  let ks := vals.filterMap (keyOf dt)
  match minKey ks, maxKey ks with
  | some lo, some hi => [{ b := .ge (boundOf dt lo) }, { b := .le (boundOf dt hi) }]
  | _, _ => []

/-- the inferred Column / Index / SeriesSchema -/
def inferField (name : Option String) (dt : DType) (vals : List Val) : ColSpec :=
  { name := name, dtype := some dt, nullable := vals.any (·.isNull), checks := inferChecks dt vals, coerce := false }

/-- `infer_dataframe_schema` (`coerce=True` at the dataframe level; a single-level index) -/
def inferFrame (D : Frame) : Schema :=
  { columns := D.cols.map fun c => inferField (some c.name) c.dtype c.vals,
    index := match D.index with
      | [l] => some (inferField l.name l.dtype l.vals)
      | _ => none,
    coerce := true }

end Pandera.Infer

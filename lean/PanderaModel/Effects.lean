/-!
# Effects IR

Save / override / restore of tracked shared locations (schema attributes, the module-global
context configuration) with exceptions, loops and branches.  `ai` is an abstract interpreter
(which locations may differ from their entry value; which local slot is known to hold the entry
value of which location); `restores_sound` proves once and for all:

  `restores s = true` → every execution of `s`, normal or exceptional, whichever callback
  raises, leaves every tracked location as it was on entry.

`/verif/extract/skeletons.py` translates the mutate-then-revert functions of pandera into this
IR on every run; `Props/C05.lean`, `C06.lean`, `C18.lean` discharge `restores … = true` by `decide`.
-/
namespace Pandera.Eff

abbrev Shared := Nat → Int
abbrev Locals := Nat → Int

inductive Stmt
  | skip
  | seq (a b : Stmt)
  | save (l k : Nat)          -- locals[k] := shared[l]
  | setv (l : Nat) (v : Int)  -- shared[l] := v
  | restore (l k : Nat)       -- shared[l] := locals[k]
  | call                      -- user callback / nested validate: may raise, leaves tracked state alone
  | tryFinally (b f : Stmt)
  | tryCatch (b h : Stmt)
  | loop (b : Stmt)
  | choice (a b : Stmt)
  deriving Repr

inductive Res | norm | exc deriving DecidableEq, Repr

abbrev Cfg := Shared × Locals

def upd (f : Nat → Int) (i : Nat) (v : Int) : Nat → Int := fun j => if j = i then v else f j

inductive Exec : Stmt → Cfg → Res → Cfg → Prop
  | skip  (c) : Exec .skip c .norm c
  | seqN  {a b c c' c'' r} : Exec a c .norm c' → Exec b c' r c'' → Exec (.seq a b) c r c''
  | seqE  {a b c c'} : Exec a c .exc c' → Exec (.seq a b) c .exc c'
  | save  (l k) (c : Cfg) : Exec (.save l k) c .norm (c.1, upd c.2 k (c.1 l))
  | setv  (l v) (c : Cfg) : Exec (.setv l v) c .norm (upd c.1 l v, c.2)
  | restore (l k) (c : Cfg) : Exec (.restore l k) c .norm (upd c.1 l (c.2 k), c.2)
  | callN (c) : Exec .call c .norm c
  | callE (c) : Exec .call c .exc c
  | tfN   {b f c c' c'' r} : Exec b c .norm c' → Exec f c' r c'' → Exec (.tryFinally b f) c r c''
  | tfE   {b f c c' c'' r} : Exec b c .exc c' → Exec f c' r c'' →
            Exec (.tryFinally b f) c .exc c''      -- exception re-raised (or replaced) after finally
  | tcN   {b h c c'} : Exec b c .norm c' → Exec (.tryCatch b h) c .norm c'
  | tcE   {b h c c' c'' r} : Exec b c .exc c' → Exec h c' r c'' → Exec (.tryCatch b h) c r c''
  | loop0 {b} (c) : Exec (.loop b) c .norm c
  | loopS {b c c' c'' r} : Exec b c .norm c' → Exec (.loop b) c' r c'' → Exec (.loop b) c r c''
  | loopE {b c c'} : Exec b c .exc c' → Exec (.loop b) c .exc c'
  | chL   {a b c r c'} : Exec a c r c' → Exec (.choice a b) c r c'
  | chR   {a b c r c'} : Exec b c r c' → Exec (.choice a b) c r c'

/-- abstract state: which tracked locations may differ from entry; which local slot is known
    to hold the entry value of which location. `none` = unreachable. -/
structure Abs where
  top   : Bool := false        -- no information
  dirty : List Nat
  holds : List (Nat × Nat)     -- (slot, loc)
  deriving Repr, DecidableEq

def Abs.join (x y : Abs) : Abs :=
  ⟨x.top || y.top, x.dirty ++ y.dirty, x.holds.filter (· ∈ y.holds)⟩

def ojoin : Option Abs → Option Abs → Option Abs
  | none, y => y
  | x, none => x
  | some x, some y => some (x.join y)

def Abs.le (x y : Abs) : Bool :=           -- x at least as precise as y
  y.top || (!x.top && x.dirty.all (· ∈ y.dirty) && y.holds.all (· ∈ x.holds))

def loopOk : Option Abs → Abs → Bool
  | none, _ => true
  | some x, σ => x.le σ

/-- returns (normal exit, exceptional exit) -/
def ai : Stmt → Abs → Option Abs × Option Abs
  | .skip, σ => (some σ, none)
  | .seq a b, σ =>
    match ai a σ with
    | (none, e) => (none, e)
    | (some σ', e) => let (n, e') := ai b σ'; (n, ojoin e e')
  | .save l k, σ =>
    let hs := σ.holds.filter (·.1 ≠ k)
    (some ⟨σ.top, σ.dirty, if l ∈ σ.dirty then hs else (k, l) :: hs⟩, none)
  | .setv l _, σ => (some ⟨σ.top, l :: σ.dirty, σ.holds⟩, none)
  | .restore l k, σ =>
    (some ⟨σ.top, if (k, l) ∈ σ.holds then σ.dirty.filter (· ≠ l) else l :: σ.dirty, σ.holds⟩, none)
  | .call, σ => (some σ, some σ)
  | .tryFinally b f, σ =>
    let (n, e) := ai b σ
    let (n1, e1) := match n with | none => (none, none) | some x => ai f x
    let (n2, e2) := match e with | none => (none, none) | some x => ai f x
    (n1, ojoin e1 (ojoin n2 e2))
  | .tryCatch b h, σ =>
    let (n, e) := ai b σ
    match e with
    | none => (n, none)
    | some x => let (n2, e2) := ai h x; (ojoin n n2, e2)
  | .loop b, σ =>
    -- accept only if σ is already a post-fixpoint of the body; otherwise give up (top)
    if loopOk (ai b σ).1 σ then (some σ, (ai b σ).2) else (some ⟨true, [], []⟩, some ⟨true, [], []⟩)
  | .choice a b, σ =>
    let (n, e) := ai a σ; let (n', e') := ai b σ; (ojoin n n', ojoin e e')

def clean : Option Abs → Bool
  | none => true
  | some x => !x.top && x.dirty.isEmpty

def restores (s : Stmt) : Bool :=
  let (n, e) := ai s ⟨false, [], []⟩
  clean n && clean e

/-! ### soundness -/

/-- concretisation relative to the shared state at entry -/
def Gam (s0 : Shared) (σ : Abs) (c : Cfg) : Prop :=
  σ.top = true ∨ ((∀ l, l ∉ σ.dirty → c.1 l = s0 l) ∧ (∀ k l, (k, l) ∈ σ.holds → c.2 k = s0 l))

def OGam (s0 : Shared) : Option Abs → Cfg → Prop
  | none, _ => False
  | some σ, c => Gam s0 σ c

theorem Gam_join_l {s0} {x y : Abs} {c} (h : Gam s0 x c) : Gam s0 (x.join y) c := by
  rcases h with h | ⟨h1, h2⟩
  · left; simp [Abs.join, h]
  · by_cases ht : (x.join y).top = true
    · exact Or.inl ht
    · right; constructor
      · intro l hl; apply h1; intro hm; exact hl (by simp [Abs.join, hm])
      · intro k l hm; apply h2; simp [Abs.join] at hm; exact hm.1

theorem Gam_join_r {s0} {x y : Abs} {c} (h : Gam s0 y c) : Gam s0 (x.join y) c := by
  rcases h with h | ⟨h1, h2⟩
  · left; simp [Abs.join, h]
  · by_cases ht : (x.join y).top = true
    · exact Or.inl ht
    · right; constructor
      · intro l hl; apply h1; intro hm; exact hl (by simp [Abs.join, hm])
      · intro k l hm; apply h2; simp [Abs.join] at hm; exact hm.2

theorem OGam_ojoin_l {s0} {x y : Option Abs} {c} (h : OGam s0 x c) : OGam s0 (ojoin x y) c := by
  cases x with
  | none => exact h.elim
  | some x => cases y with
    | none => exact h
    | some y => exact Gam_join_l h

theorem OGam_ojoin_r {s0} {x y : Option Abs} {c} (h : OGam s0 y c) : OGam s0 (ojoin x y) c := by
  cases y with
  | none => exact h.elim
  | some y => cases x with
    | none => exact h
    | some x => exact Gam_join_r h

theorem Gam_le {s0} {x y : Abs} {c} (hle : x.le y = true) (h : Gam s0 x c) : Gam s0 y c := by
  unfold Abs.le at hle
  by_cases ht : y.top = true
  · exact Or.inl ht
  · simp [ht, List.all_eq_true] at hle
    obtain ⟨⟨hx, hd⟩, hh⟩ := hle
    rcases h with h | ⟨h1, h2⟩
    · simp [hx] at h
    · right; constructor
      · intro l hl; apply h1; intro hm; exact hl (hd l hm)
      · intro k l hm; exact h2 k l (hh _ _ hm)

def Post (s0 : Shared) (s : Stmt) (σ : Abs) (r : Res) (c' : Cfg) : Prop :=
  match r with
  | .norm => OGam s0 (ai s σ).1 c'
  | .exc  => OGam s0 (ai s σ).2 c'

theorem ai_sound {s : Stmt} {c c' : Cfg} {r : Res} (hex : Exec s c r c') :
    ∀ (s0 : Shared) (σ : Abs), Gam s0 σ c → Post s0 s σ r c' := by
  induction hex with
  | skip c => intro s0 σ h; simpa [Post, ai, OGam] using h
  | @seqN a b c c1 c2 r _ _ iha ihb =>
    intro s0 σ h
    have ha := iha s0 σ h
    simp only [Post] at ha
    cases hn : (ai a σ).1 with
    | none => simp [hn, OGam] at ha
    | some σ' =>
      rw [hn] at ha
      have hb := ihb s0 σ' ha
      cases r <;> simp only [Post, ai] at hb ⊢
      · rcases hab : ai a σ with ⟨n, e⟩; rw [hab] at hn; simp at hn; subst hn; simpa using hb
      · rcases hab : ai a σ with ⟨n, e⟩; rw [hab] at hn; simp at hn; subst hn
        simp; exact OGam_ojoin_r hb
  | @seqE a b c c1 _ iha =>
    intro s0 σ h
    have ha := iha s0 σ h
    simp only [Post, ai] at ha ⊢
    rcases hab : ai a σ with ⟨n, e⟩; rw [hab] at ha
    cases n with
    | none => simpa using ha
    | some σ' => simp; exact OGam_ojoin_l ha
  | save l k c =>
    intro s0 σ h
    simp only [Post, ai, OGam]
    rcases h with h | ⟨h1, h2⟩
    · exact Or.inl h
    · right; refine ⟨h1, ?_⟩
      intro k' l' hm
      have hcases : (k' = k ∧ l' = l ∧ l ∉ σ.dirty) ∨ (k' ≠ k ∧ (k', l') ∈ σ.holds) := by
        by_cases hd : l ∈ σ.dirty
        · simp [hd] at hm; exact Or.inr ⟨hm.2, hm.1⟩
        · simp [hd] at hm
          rcases hm with ⟨rfl, rfl⟩ | hm
          · exact Or.inl ⟨rfl, rfl, hd⟩
          · exact Or.inr ⟨hm.2, hm.1⟩
      rcases hcases with ⟨rfl, rfl, hd⟩ | ⟨hk, hmem⟩
      · simp [upd, h1 _ hd]
      · simp [upd, hk, h2 _ _ hmem]
  | setv l v c =>
    intro s0 σ h
    simp only [Post, ai, OGam]
    rcases h with h | ⟨h1, h2⟩
    · exact Or.inl h
    · right; refine ⟨?_, h2⟩
      intro l' hl'; simp at hl'; simp [upd, hl'.1, h1 _ hl'.2]
  | restore l k c =>
    intro s0 σ h
    simp only [Post, ai, OGam]
    rcases h with h | ⟨h1, h2⟩
    · exact Or.inl h
    · right; refine ⟨?_, h2⟩
      intro l' hl'
      by_cases hh : (k, l) ∈ σ.holds
      · simp [hh] at hl'
        by_cases e : l' = l
        · subst e; simp [upd, h2 _ _ hh]
        · simp [upd, e, h1 _ (fun hm => e (hl' hm))]
      · simp [hh] at hl'; simp [upd, hl'.1, h1 _ hl'.2]
  | callN c => intro s0 σ h; simpa [Post, ai, OGam] using h
  | callE c => intro s0 σ h; simpa [Post, ai, OGam] using h
  | @tfN b f c c1 c2 r _ _ ihb ihf =>
    intro s0 σ h
    have hb := ihb s0 σ h
    simp only [Post] at hb
    rcases hbf : ai b σ with ⟨n, e⟩
    rw [hbf] at hb
    cases n with
    | none => exact hb.elim
    | some x =>
      have hf := ihf s0 x hb
      cases r <;> simp only [Post, ai, hbf] at hf ⊢
      · exact hf
      · exact OGam_ojoin_l hf
  | @tfE b f c c1 c2 r _ _ ihb ihf =>
    intro s0 σ h
    have hb := ihb s0 σ h
    simp only [Post] at hb
    rcases hbf : ai b σ with ⟨n, e⟩
    rw [hbf] at hb
    cases e with
    | none => exact hb.elim
    | some x =>
      have hf := ihf s0 x hb
      simp only [Post, ai, hbf]
      apply OGam_ojoin_r
      cases r <;> simp only [Post] at hf
      · exact OGam_ojoin_l hf
      · exact OGam_ojoin_r hf
  | @tcN b h c c1 _ ihb =>
    intro s0 σ hg
    have hb := ihb s0 σ hg
    simp only [Post, ai] at hb ⊢
    rcases hbf : ai b σ with ⟨n, e⟩
    rw [hbf] at hb
    cases e with
    | none => simpa using hb
    | some x => simp; exact OGam_ojoin_l hb
  | @tcE b h c c1 c2 r _ _ ihb ihh =>
    intro s0 σ hg
    have hb := ihb s0 σ hg
    simp only [Post] at hb
    rcases hbf : ai b σ with ⟨n, e⟩
    rw [hbf] at hb
    cases e with
    | none => exact hb.elim
    | some x =>
      have hh := ihh s0 x hb
      cases r <;> simp only [Post, ai, hbf] at hh ⊢
      · exact OGam_ojoin_r hh
      · exact hh
  | @loop0 b c =>
    intro s0 σ h
    simp only [Post, ai]
    by_cases hok : loopOk (ai b σ).1 σ = true
    · simpa [hok, OGam] using h
    · simp [hok, OGam, Gam]
  | @loopS b c c1 c2 r _ _ ihb ihl =>
    intro s0 σ h
    have hb := ihb s0 σ h
    simp only [Post] at hb
    by_cases hok : loopOk (ai b σ).1 σ = true
    · cases hn : (ai b σ).1 with
      | none => rw [hn] at hb; exact hb.elim
      | some x =>
        rw [hn] at hb hok
        exact ihl s0 σ (Gam_le hok hb)
    · cases r <;> simp [Post, ai, hok, OGam, Gam]
  | @loopE b c c1 _ ihb =>
    intro s0 σ h
    have hb := ihb s0 σ h
    simp only [Post, ai] at hb ⊢
    by_cases hok : loopOk (ai b σ).1 σ = true
    · simpa [hok] using hb
    · simp [hok, OGam, Gam]
  | @chL a b c r c1 _ ih =>
    intro s0 σ h
    have := ih s0 σ h
    cases r <;> simp only [Post, ai] at this ⊢ <;> exact OGam_ojoin_l this
  | @chR a b c r c1 _ ih =>
    intro s0 σ h
    have := ih s0 σ h
    cases r <;> simp only [Post, ai] at this ⊢ <;> exact OGam_ojoin_r this

/-- the analyser is sound: accepted skeletons restore every tracked location on every path -/
theorem restores_sound {s : Stmt} (h : restores s = true) {c c' : Cfg} {r : Res}
    (hex : Exec s c r c') : ∀ l, c'.1 l = c.1 l := by
  have hg : Gam c.1 ⟨false, [], []⟩ c := Or.inr ⟨fun _ _ => rfl, by simp⟩
  have hp := ai_sound hex c.1 _ hg
  unfold restores at h
  simp only [Bool.and_eq_true] at h
  intro l
  cases r <;> simp only [Post] at hp
  · cases hn : (ai s ⟨false, [], []⟩).1 with
    | none => rw [hn] at hp; exact hp.elim
    | some x =>
      rw [hn] at hp; have hc := h.1; rw [hn] at hc; simp [clean] at hc
      rcases hp with hp | hp
      · simp [hc.1] at hp
      · exact hp.1 l (by simp [hc.2])
  · cases hn : (ai s ⟨false, [], []⟩).2 with
    | none => rw [hn] at hp; exact hp.elim
    | some x =>
      rw [hn] at hp; have hc := h.2; rw [hn] at hc; simp [clean] at hc
      rcases hp with hp | hp
      · simp [hc.1] at hp
      · exact hp.1 l (by simp [hc.2])

end Pandera.Eff

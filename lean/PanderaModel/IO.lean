import PanderaModel.Transform
/-!
# Schema serialisation (C12)

`pandera/io/pandas_io.py`: the check-statistics codec (`_serialize_check_stats` /
`_deserialize_check_stats`, with the unary collapse, the `value` special case and `options`), checks
keyed by name, and the slot-filling modes of the script templates.

Imports only the (import-free) dict helpers of `Transform.lean`: the driver links this file.
-/

namespace Pandera.IO
open Pandera.Transform (dictOf dictSet keys)

/-- statistic / option values: scalars and flat lists (what the built-in checks carry) -/
inductive Atom
  | null | bool (b : Bool) | int (i : Int) | str (s : String)
  deriving Repr, DecidableEq, Inhabited

inductive SV
  | atom (a : Atom) | list (xs : List Atom)
  deriving Repr, DecidableEq, Inhabited

/-- a built-in check as the serialiser sees it (`parse_checks`): name, `statistics`, non-None options -/
structure CheckS where
  name : String
  stats : List (String × SV)
  options : List (String × SV)
  deriving Repr, DecidableEq, Inhabited

/-- an entry of a serialised check mapping: a value, or the nested `options` mapping -/
inductive Entry
  | val (v : SV) | sub (kvs : List (String × SV))
  deriving Repr, DecidableEq, Inhabited

/-- what `_serialize_check_stats` returns: the bare value of a unary check, or a mapping -/
inductive CDoc
  | bare (v : SV) | map (kvs : List (String × Entry))
  deriving Repr, DecidableEq, Inhabited

/-- `_serialize_check_stats` (statistic dtype handling is the identity for the modelled values) -/
def serCheck (c : CheckS) : CDoc :=
  match c.stats with
  | [(_, v)] =>
    if c.options.isEmpty then .bare v
    else .map [("value", .val v), ("options", .sub c.options)]
  | stats =>
    .map (stats.map (fun p => (p.1, Entry.val p.2))
          ++ (if c.options.isEmpty then [] else [("options", Entry.sub c.options)]))

def entryVal : String × Entry → Option (String × SV)
  | (k, .val v) => some (k, v)
  | (_, .sub _) => none

/-- `_deserialize_check_stats`: `first` is the first positional parameter of `Check.<name>`
(a bare value is passed positionally).  Returns the statistics and options of the rebuilt check. -/
def deserCheck (first : Option String) (d : CDoc) : Option (List (String × SV) × List (String × SV)) :=
  match d with
  | .bare v => first.map fun k => ([(k, v)], [])
  | .map kvs =>
    let options := match kvs.lookup "options" with
      | some (.sub o) => o
      | _ => []
    let rest := kvs.filter fun p => p.1 != "options"
    match rest with
    | [("value", .val v)] => first.map fun k => ([(k, v)], options)
    | _ => (rest.mapM entryVal).map fun st => (st, options)

/-- `{check_name: _serialize_check_stats(...)}`: checks are keyed by their name -/
def serChecks (cs : List CheckS) : List (String × CDoc) :=
  dictOf (cs.map fun c => (c.name, serCheck c))

def deserChecks (first : String → Option String) (kvs : List (String × CDoc)) : Option (List CheckS) :=
  kvs.mapM fun p => (deserCheck (first p.1) p.2).map fun r => { name := p.1, stats := r.1, options := r.2 }

/-! ## script slots -/

/-- Python values that fill script slots -/
inductive PyVal
  | none | bool (b : Bool) | str (s : String) | strList (l : List String)
  deriving Repr, DecidableEq, Inhabited

/-- what the Python parser sees in a slot -/
inductive Seen
  | lit (v : PyVal)        -- a literal denoting `v`
  | name (s : String)      -- a bare identifier (NameError, or worse: a builtin such as `filter`)
  | broken                 -- not an expression
  deriving Repr, DecidableEq, Inhabited

inductive Mode | raw | repr | quoted | quotedUnguarded
  deriving Repr, DecidableEq, Inhabited

def isIdent (s : String) : Bool :=
  !s.isEmpty && s.toList.all (fun c => c.isAlphanum || c == '_') && !(s.toList.head!).isDigit

def quoteSafe (s : String) : Bool :=
  s.toList.all fun c => c != '"' && c != '\\' && c != '\n'

/-- the text spliced into the template, as the parser will read it -/
def seen (m : Mode) (v : PyVal) : Seen :=
  match m, v with
  | .repr, v => .lit v
  | .raw, .none => .lit .none
  | .raw, .bool b => .lit (.bool b)
  | .raw, .str s => if isIdent s then .name s else .broken
  | .raw, .strList l => .lit (.strList l)                 -- str(list) is the list's repr
  | .quoted, .none => .lit .none                          -- `None if x is None else f'"{x}"'`
  | .quoted, .str s => if quoteSafe s then .lit (.str s) else .broken
  | .quoted, _ => .broken
  | .quotedUnguarded, .str s => if quoteSafe s then .lit (.str s) else .broken
  | .quotedUnguarded, .none => .lit (.str "None")
  | .quotedUnguarded, _ => .broken

/-- kinds of attribute values -/
inductive Ty
  | flag            -- bool
  | text            -- Optional[str], free text (names, titles, descriptions)
  | strict          -- bool or the string 'filter'
  | names           -- Optional[List[str]]
  | enum            -- one of a few quote-free strings
  deriving Repr, DecidableEq, Inhabited

def hasTy : Ty → PyVal → Bool
  | .flag, .bool _ => true
  | .text, .none => true
  | .text, .str _ => true
  | .strict, .bool _ => true
  | .strict, .str s => s == "filter"
  | .names, .none => true
  | .names, .strList _ => true
  | .enum, .str s => quoteSafe s
  | _, _ => false

/-- a filling mode is adequate for a kind of value -/
def modeOk : Mode → Ty → Bool
  | .repr, _ => true
  | .raw, .flag => true
  | .raw, .names => true
  | .quoted, .enum => true
  | .quotedUnguarded, .enum => true
  | _, _ => false

def modeOf (s : String) : Option Mode :=
  if s == "raw" then some .raw else if s == "repr" then some .repr
  else if s == "quoted" then some .quoted else if s == "quoted-unguarded" then some .quotedUnguarded else none

/-- the obligation on a regenerated fill table: every slot the specification lists is filled, from
the attribute of that name, in a mode adequate for its kind; `code` / `checks` / `dtype` slots must
be filled by the dedicated formatters -/
def fillOk (fill : List (String × String × String)) (spec : List (String × Option Ty)) : Bool :=
  spec.all fun sp =>
    match fill.find? (fun f => f.1 == sp.1) with
    | none => false
    | some f =>
      match sp.2 with
      | some ty => f.2.2 == sp.1 && (match modeOf f.2.1 with
          | some m => modeOk m ty
          | none => false)
      | none => f.2.1 == "code" || ((f.2.1 == "checks" || f.2.1 == "dtype") && f.2.2 == sp.1)

end Pandera.IO

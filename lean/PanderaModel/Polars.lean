import PanderaModel.Pandas
/-!
# The polars validation pipeline (full depth, shared vocabulary)

Shaped like `backends/polars/{components,container}.py`.  The container is the twin of the pandas one
(`strict_filter_columns`, `check_column_presence`, `check_column_values_are_unique` are the same text
on a LazyFrame), so those steps *are* the pandas definitions; what differs is modelled here:

* the dtype check compares physical dtypes exactly (no element-wise form for `str`);
* `is_duplicated()` marks every occurrence of a repeated value (pandas: `duplicated(keep=…)`);
* the check backend evaluates an expression over the whole column: a null value gives a null outcome,
  which passes under `ignore_na` and fails otherwise; failure cases are the rows whose outcome is false;
* there is no index, and the component order is nullable, unique, dtype, checks (no name check).

Regex column names are outside the shared vocabulary (pandas `re.match`, polars `^…$`).
-/
namespace Pandera
namespace Polars

/-- element outcome of the polars check backend -/
def elemOk (f : Val → Option Bool) (ignoreNa : Bool) (v : Val) : Option Bool :=
  if v.isNull then some ignoreNa else f v

/-- one check on one column: `raised` when the expression cannot be evaluated on some non-null value -/
def runCheckFn (f : Val → Option Bool) (ignoreNa : Bool) (vals : List Val) : CheckOut :=
  let outs := vals.zipIdx.map (fun p => (elemOk f ignoreNa p.1, p.2))
  if outs.any (fun o => o.1.isNone) then .raised
  else .fails (outs.filterMap (fun o => if o.1 == some false then some o.2 else none))

def runCheck (c : CheckSpec) (vals : List Val) : CheckOut := runCheckFn (docPred c.b) c.ignoreNa vals

def checkStep (label : Option String) (vals : List Val) (ix : Nat) (c : CheckSpec) : List Err :=
  match runCheck c vals with
  | .raised => [{ reason := .checkError, ctx := .column, label, checkIx := some ix }]
  | .fails [] => []
  | .fails ps => [{ reason := .dataframeCheck, ctx := .column, label, checkIx := some ix, cells := cellsAt label vals ps }]

def checksSteps (label : Option String) (vals : List Val) (cs : List CheckSpec) : List Err :=
  (cs.zipIdx.map (fun p => checkStep label vals p.2 p.1)).flatten

/-- `check_dtype`: physical dtypes compared exactly; the failure case is the dtype's name -/
def dtypeErrs (label : Option String) (dt : Option DType) (phys : DType) : List Err :=
  match dt with
  | none => []
  | some t => if t != phys then [{ reason := .wrongDatatype, ctx := .column, label }] else []

/-- `ColumnBackend.run_checks_and_handle_errors`: nullable, unique, dtype, checks -/
def fieldErrors (spec : ColSpec) (name : String) (phys : DType) (vals : List Val) : List Err :=
  let label := some name
  let nullPos := truePositions (vals.map Val.isNull)
  let eNull : List Err :=
    if !spec.nullable && !nullPos.isEmpty then
      [{ reason := .seriesContainsNulls, ctx := .column, label, cells := cellsAt label vals nullPos }] else []
  let dupPos := truePositions (dupMask .none vals)
  let eUniq : List Err :=
    if spec.unique && !dupPos.isEmpty then
      [{ reason := .seriesContainsDuplicates, ctx := .column, label, cells := cellsAt label vals dupPos }] else []
  eNull ++ eUniq ++ dtypeErrs label spec.dtype phys ++ checksSteps label vals spec.checks

/-- one column component as collected by `collect_schema_components` (non-regex) -/
def columnErrors (spec : ColSpec) (D : Frame) : List Err :=
  match spec.regex, spec.name with
  | none, some n => match D.col? n with
    | some c => fieldErrors spec n c.dtype c.vals
    | none => []            -- absent: reported by the presence check, the component is not collected
  | _, _ => []

/-- `check_column_values_are_unique`: the pandas text with `is_duplicated()` -/
def jointUniqueErrors (S : Schema) (D : Frame) : List Err :=
  if !S.unique.isEmpty then
    let cols := (S.unique.filter D.hasCol).filterMap D.col?
    if cols.isEmpty then [] else
    let dupPos := truePositions (dupRowMask .none (rowsOf D.nrows (cols.map (·.vals))))
    if dupPos.isEmpty then [] else
      [{ reason := .duplicates, ctx := .frame, label := none,
         cells := (cols.map (fun c => cellsAt (some c.name) c.vals dupPos)).flatten }]
  else []

def presenceErrors (S : Schema) (D : Frame) : List Err :=
  (absentNames S D).map (fun n => { reason := .columnNotInDataframe, ctx := .frame, label := some n })

/-- the core checks proper (everything but the strict / ordered test, which a parser performs) -/
def coreErrors (S : Schema) (D : Frame) : List Err :=
  presenceErrors S D ++ jointUniqueErrors S D ++ (S.columns.map (fun c => columnErrors c D)).flatten

/-- the lazy error list of the polars `DataFrameSchema.validate`, in collection order -/
def frameErrors (S : Schema) (D : Frame) : List Err :=
  strictOrderedErrors S D ++ coreErrors S D

def accepts (S : Schema) (D : Frame) : Bool := (frameErrors S D).isEmpty

end Polars
end Pandera
